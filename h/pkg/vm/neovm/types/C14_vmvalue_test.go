package types

// C14 — NeoVM value serialization round-trips and rejects cycles safely.
//
// Part G (value graphs): every value graph of a bounded shape (<=N container
// nodes of kind array/struct/map, <=S slots each, every slot a primitive or a
// reference to ANY node => every cycle position and every sharing pattern) is
// built with the real constructors and pushed through Serialize/Deserialize,
// BuildParamToNative, Stringify, Dump, ConvertNeoVmValueHexString,
// BuildResultFromNeo and CircularRefAndDepthDetection.  Because an undetected
// cycle ends in `fatal error: stack overflow` (not recoverable), ALL graph
// cases run in a worker subprocess (this test binary re-executed with
// -test.run ^TestVerif_C14_Worker$); the worker publishes the (case, op) it is
// about to run through a shared mapping, the parent attributes a death to it,
// records the violation and resumes.
//
// Part B (bytes): Deserialize on every byte string up to length L, on every
// single-byte mutation / truncation of valid encodings and on boundary
// counts / nesting depths; in-process (the decoder is depth-bounded).

import (
	"bytes"
	"encoding/binary"
	"encoding/json"
	"fmt"
	"io"
	"math/big"
	"os"
	"os/exec"
	"path/filepath"
	"runtime/debug"
	"sort"
	"strconv"
	"strings"
	"sync"
	"syscall"
	"testing"
	"time"

	"github.com/ontio/ontology/common"
	"github.com/ontio/ontology/common/log"
	"github.com/ontio/ontology/vm/neovm/constants"
	"github.com/ontio/ontology/vm/neovm/errors"
	"github.com/ontio/ontology/verifshim/vh"
)

// ---------------------------------------------------------------------------
// case description: a value graph
// ---------------------------------------------------------------------------

type c14slot struct {
	ref  int    // >=0: reference to node ref; -1: primitive
	prim string // "p0".."p5", "b<len>", "x<signed hex>"
}

type c14graph struct {
	kinds []byte // 'A' array, 'S' struct, 'M' map; node 0 is the root.  A graph without nodes is the single primitive in prim.
	slots [][]c14slot
	prim  string
}

func (g *c14graph) String() string {
	if len(g.kinds) == 0 {
		return g.prim
	}
	var sb strings.Builder
	for i, k := range g.kinds {
		if i > 0 {
			sb.WriteByte(';')
		}
		sb.WriteByte(k)
		sb.WriteByte(':')
		sl := g.slots[i]
		for j := 0; j < len(sl); {
			e := j
			for e < len(sl) && sl[e] == sl[j] {
				e++
			}
			if j > 0 {
				sb.WriteByte(',')
			}
			s := sl[j].prim
			if sl[j].ref >= 0 {
				s = "n" + strconv.Itoa(sl[j].ref)
			}
			if e-j > 3 {
				sb.WriteString(strconv.Itoa(e-j) + "*" + s)
				j = e
			} else {
				sb.WriteString(s)
				j++
			}
		}
	}
	return sb.String()
}

func c14parse(desc string) (*c14graph, error) {
	g := &c14graph{}
	if !strings.Contains(desc, ":") {
		g.prim = desc
		if _, err := c14prim(desc); err != nil {
			return nil, err
		}
		return g, nil
	}
	parts := strings.Split(desc, ";")
	for _, p := range parts {
		if len(p) < 2 || p[1] != ':' || strings.IndexByte("ASM", p[0]) < 0 {
			return nil, fmt.Errorf("bad node %q", p)
		}
		g.kinds = append(g.kinds, p[0])
		var sl []c14slot
		if len(p) > 2 {
			for _, s := range strings.Split(p[2:], ",") {
				rep := 1
				if i := strings.IndexByte(s, '*'); i > 0 {
					n, err := strconv.Atoi(s[:i])
					if err != nil || n < 1 || n > 100000 {
						return nil, fmt.Errorf("bad repeat %q", s)
					}
					rep, s = n, s[i+1:]
				}
				var x c14slot
				if strings.HasPrefix(s, "n") {
					n, err := strconv.Atoi(s[1:])
					if err != nil || n < 0 || n >= len(parts) {
						return nil, fmt.Errorf("bad ref %q", s)
					}
					x = c14slot{ref: n}
				} else {
					if _, err := c14prim(s); err != nil {
						return nil, err
					}
					x = c14slot{ref: -1, prim: s}
				}
				for k := 0; k < rep; k++ {
					sl = append(sl, x)
				}
			}
		}
		g.slots = append(g.slots, sl)
	}
	return g, nil
}

var c14two63 = new(big.Int).Lsh(big.NewInt(1), 63)

// c14prim builds a primitive with the real constructors.
func c14prim(sym string) (VmValue, error) {
	switch sym {
	case "p0":
		return VmValueFromInt64(0), nil
	case "p1":
		return VmValueFromInt64(-1), nil
	case "p2":
		return VmValueFromBigInt(new(big.Int).Set(c14two63))
	case "p3":
		return VmValueFromBytes([]byte{})
	case "p4":
		return VmValueFromBytes([]byte{0})
	case "p5":
		return VmValueFromBool(true), nil
	case "p6":
		return VmValueFromBool(false), nil
	}
	if len(sym) > 1 && sym[0] == 'b' {
		n, err := strconv.Atoi(sym[1:])
		if err != nil || n < 0 || n > 2<<20 {
			return VmValue{}, fmt.Errorf("bad prim %q", sym)
		}
		b := make([]byte, n)
		for i := range b {
			b[i] = byte(i*7 + 1)
		}
		return VmValueFromBytes(b)
	}
	if len(sym) > 1 && sym[0] == 'x' {
		v, ok := new(big.Int).SetString(sym[1:], 16)
		if !ok {
			return VmValue{}, fmt.Errorf("bad prim %q", sym)
		}
		return VmValueFromBigInt(v)
	}
	return VmValue{}, fmt.Errorf("bad prim %q", sym)
}

// map keys: slot i of a map node is the value stored under key c14mapKey(i).
// The first three are chosen so that insertion order != sorted order and key
// types differ; all keys of one map are distinct as map keys.
func c14mapKey(i int) VmValue {
	switch i {
	case 0:
		return VmValueFromInt64(2)
	case 1:
		v, _ := VmValueFromBytes([]byte{1})
		return v
	case 2:
		v, _ := VmValueFromBytes([]byte("abc"))
		return v
	}
	return VmValueFromInt64(int64(i + 10))
}

// c14build constructs the real value graph.
func c14build(g *c14graph) (VmValue, error) {
	if len(g.kinds) == 0 {
		return c14prim(g.prim)
	}
	n := len(g.kinds)
	vals := make([]VmValue, n)
	arrs := make([]*ArrayValue, n)
	strs := make([]*StructValue, n)
	maps := make([]*MapValue, n)
	for i, k := range g.kinds {
		switch k {
		case 'A':
			arrs[i] = NewArrayValue()
			vals[i] = VmValueFromArrayVal(arrs[i])
		case 'S':
			strs[i] = NewStructValue()
			vals[i] = VmValueFromStructVal(strs[i])
		case 'M':
			maps[i] = NewMapValue()
			vals[i] = VmValueFromMapValue(maps[i])
		}
	}
	for i, k := range g.kinds {
		for j, s := range g.slots[i] {
			var v VmValue
			if s.ref >= 0 {
				v = vals[s.ref]
			} else {
				var err error
				if v, err = c14prim(s.prim); err != nil {
					return VmValue{}, err
				}
			}
			var err error
			switch k {
			case 'A':
				err = arrs[i].Append(v)
			case 'S':
				err = strs[i].Append(v)
			case 'M':
				err = maps[i].Set(c14mapKey(j), v)
			}
			if err != nil {
				return VmValue{}, fmt.Errorf("constructor refused slot %d of node %d: %v", j, i, err)
			}
		}
	}
	return vals[0], nil
}

// ---------------------------------------------------------------------------
// analysis of the description (boring graph code; never touches the real value)
// ---------------------------------------------------------------------------

type c14info struct {
	cyclic   bool
	maxDepth int    // acyclic only: max depth of any value node, root = 0
	size     int    // acyclic only: size of the serialization (capped)
	multiMap bool   // a reachable map node has >= 2 entries
	shared   bool   // some node is referenced from two slots
	kinds    string // sorted set of container kinds reachable
	cls      string // class of the case (see c14classify)
	within   bool   // acyclic and within the depth/size limits named in the code
}

const c14sizeCap = 8 << 20

func c14varuintSize(v uint64) int {
	switch {
	case v < 0xfd:
		return 1
	case v <= 0xffff:
		return 3
	case v <= 0xffffffff:
		return 5
	}
	return 9
}

func c14primSize(sym string) int {
	v, err := c14prim(sym)
	if err != nil {
		return c14sizeCap
	}
	switch v.valType {
	case boolType:
		return 2
	case bytearrayType:
		return 1 + c14varuintSize(uint64(len(v.byteArray))) + len(v.byteArray)
	case integerType:
		n := len(common.BigIntToNeoBytes(big.NewInt(v.integer)))
		return 1 + c14varuintSize(uint64(n)) + n
	case bigintType:
		n := len(common.BigIntToNeoBytes(v.bigInt))
		return 1 + c14varuintSize(uint64(n)) + n
	}
	return c14sizeCap
}

func c14analyse(g *c14graph) c14info {
	var in c14info
	n := len(g.kinds)
	if n == 0 {
		in.size = c14primSize(g.prim)
		in.kinds = "prim"
		in.within = in.size <= constants.MAX_BYTEARRAY_SIZE
		in.cls = "acyclic"
		if !in.within {
			in.cls = "oversize"
		}
		return in
	}
	// reachability, sharing, cycle (colour DFS)
	colour := make([]byte, n)
	refs := make([]int, n)
	var dfs func(i int)
	dfs = func(i int) {
		colour[i] = 1
		for _, s := range g.slots[i] {
			if s.ref < 0 {
				continue
			}
			refs[s.ref]++
			switch colour[s.ref] {
			case 0:
				dfs(s.ref)
			case 1:
				in.cyclic = true
			}
		}
		colour[i] = 2
	}
	dfs(0)
	ks := map[byte]bool{}
	for i := 0; i < n; i++ {
		if colour[i] == 0 {
			continue
		}
		ks[g.kinds[i]] = true
		if refs[i] > 1 {
			in.shared = true
		}
		if g.kinds[i] == 'M' && len(g.slots[i]) >= 2 {
			in.multiMap = true
		}
	}
	for _, k := range []byte("AMS") {
		if ks[k] {
			in.kinds += string(k)
		}
	}
	if in.cyclic {
		in.cls = c14cycleClass(g)
		return in
	}
	// acyclic: longest path and unfolded size (memoised per node; DAG)
	depthBelow := make([]int, n) // max depth of anything strictly inside node i, relative to node i (0 = empty)
	size := make([]int, n)
	done := make([]bool, n)
	var walk func(i int)
	walk = func(i int) {
		if done[i] {
			return
		}
		d, sz := 0, 1+c14varuintSize(uint64(len(g.slots[i])))
		for j, s := range g.slots[i] {
			if g.kinds[i] == 'M' {
				k := c14mapKey(j)
				kb, _ := k.AsBytes()
				sz += 1 + c14varuintSize(uint64(len(kb))) + len(kb)
			}
			if s.ref < 0 {
				if d < 1 {
					d = 1
				}
				sz += c14primSize(s.prim)
			} else {
				walk(s.ref)
				if d < depthBelow[s.ref]+1 {
					d = depthBelow[s.ref] + 1
				}
				sz += size[s.ref]
			}
			if sz > c14sizeCap {
				sz = c14sizeCap
			}
		}
		depthBelow[i], size[i], done[i] = d, sz, true
	}
	walk(0)
	in.maxDepth, in.size = depthBelow[0], size[0]
	overDepth := in.maxDepth > MAX_STRUCT_DEPTH
	overSize := in.size > constants.MAX_BYTEARRAY_SIZE
	in.within = !overDepth && !overSize
	switch {
	case overDepth:
		in.cls = "overdepth"
	case overSize:
		in.cls = "oversize"
	default:
		in.cls = "acyclic"
	}
	return in
}

// c14cycleClass names where, seen from the root, a cyclic graph hides its
// cycle.  The "examined walk" follows slot 0 of arrays and structs and every
// entry of maps.  If that walk itself closes a cycle the class is
// "cyclic:first-slot-path".  Otherwise some array or struct X on the walk
// holds, in a slot > 0, a reference from which a cycle is reachable; the class
// names the kind of the first such X (preorder): "cyclic:behind-array-slot>0",
// "cyclic:behind-struct-slot>0".
func c14cycleClass(g *c14graph) string {
	n := len(g.kinds)
	reach := make([][]bool, n)
	for i := range reach {
		reach[i] = make([]bool, n)
		for _, s := range g.slots[i] {
			if s.ref >= 0 {
				reach[i][s.ref] = true
			}
		}
	}
	for k := 0; k < n; k++ {
		for i := 0; i < n; i++ {
			if reach[i][k] {
				for j := 0; j < n; j++ {
					if reach[k][j] {
						reach[i][j] = true
					}
				}
			}
		}
	}
	reachesCycle := func(v int) bool {
		if reach[v][v] {
			return true
		}
		for u := 0; u < n; u++ {
			if reach[v][u] && reach[u][u] {
				return true
			}
		}
		return false
	}
	examined := func(i int) []int { // the children the walk descends into
		var out []int
		for j, s := range g.slots[i] {
			if s.ref >= 0 && (j == 0 || g.kinds[i] == 'M') {
				out = append(out, s.ref)
			}
		}
		return out
	}
	// pass 1: does the examined walk close a cycle?
	colour := make([]byte, n)
	closes := false
	var dfs func(i int)
	dfs = func(i int) {
		colour[i] = 1
		for _, c := range examined(i) {
			switch colour[c] {
			case 0:
				dfs(c)
			case 1:
				closes = true
			}
		}
		colour[i] = 2
	}
	dfs(0)
	if closes {
		return "cyclic:first-slot-path"
	}
	// pass 2: first array/struct on the walk with a cycle behind a slot > 0
	seen := make([]bool, n)
	cls := ""
	var walk func(i int)
	walk = func(i int) {
		if seen[i] || cls != "" {
			return
		}
		seen[i] = true
		if g.kinds[i] != 'M' {
			for j := 1; j < len(g.slots[i]); j++ {
				if t := g.slots[i][j].ref; t >= 0 && reachesCycle(t) {
					if g.kinds[i] == 'A' {
						cls = "cyclic:behind-array-slot>0"
					} else {
						cls = "cyclic:behind-struct-slot>0"
					}
					return
				}
			}
		}
		for _, c := range examined(i) {
			walk(c)
		}
	}
	walk(0)
	if cls == "" {
		cls = "cyclic:unclassified"
	}
	return cls
}

var c14api = map[string]string{"detect": "CircularRefAndDepthDetection", "serialize": "Serialize", "native": "BuildParamToNative", "stringify": "Stringify",
	"dump": "Dump", "hexstring": "ConvertNeoVmValueHexString", "resultfromneo": "BuildResultFromNeo"}

// c14key is the violation key for op failing with outcome on a case of class
// cls: <API>:<input class>:<outcome>, with the input class worded as the
// defect it exposes.
func c14key(op, cls, outcome string) string {
	api := c14api[op]
	if api == "" {
		api = op
	}
	switch cls {
	case "cyclic:behind-array-slot>0":
		cls = "cycle-undetected:array:ref-not-in-first-slot"
	case "cyclic:behind-struct-slot>0":
		cls = "cycle-undetected:struct:ref-not-in-first-slot"
	case "cyclic:first-slot-path":
		cls = "cycle-on-first-slot-path"
	}
	return api + ":" + cls + ":" + outcome
}

// canonical: all nodes reachable from node 0 and numbered in DFS discovery
// order (kills relabelling symmetry and graphs that are really smaller).
func c14canonical(g *c14graph) bool {
	n := len(g.kinds)
	next := 1
	var seen [8]bool
	seen[0] = true
	ok := true
	var dfs func(i int)
	dfs = func(i int) {
		for _, s := range g.slots[i] {
			if s.ref < 0 || seen[s.ref] {
				continue
			}
			if s.ref != next {
				ok = false
				return
			}
			seen[s.ref] = true
			next++
			dfs(s.ref)
			if !ok {
				return
			}
		}
	}
	dfs(0)
	return ok && next == n
}

// ---------------------------------------------------------------------------
// enumeration of the graph cases (identical in parent and worker)
// ---------------------------------------------------------------------------

type c14family struct {
	nodes, maxSlots, prims int
}

func c14families(tier string) []c14family {
	if tier == "thorough" {
		return []c14family{{1, 3, 6}, {2, 3, 6}, {3, 2, 2}, {3, 3, 1}, {4, 2, 1}}
	}
	return []c14family{{1, 3, 6}, {2, 2, 6}, {2, 3, 2}, {3, 2, 1}}
}

var c14primSyms = []string{"p0", "p3", "p1", "p2", "p4", "p5"} // first k are used by a family with k primitives

// c14minimalCyclic: the smallest cyclic values of every class.  They are run
// first, on their own (phase 1): if an operation runs away on a class, it does
// so -- and is decided under the default stack limit -- on the cheapest
// representative, and the class is then left out of the big enumeration.
func c14minimalCyclic() []string {
	return []string{"A:n0", "S:n0", "M:n0", "A:p0,n0", "S:p0,n0", "M:p0,n0", "M:n0,p0", "M:p0,p0,n0", "A:p0,n1;M:n0", "A:n1;M:p0,n0", "S:p0,n1;M:p0,n2;S:p0,n0"}
}

// c14special: depth-limit, size-limit and primitive-boundary cases.
func c14special() []string {
	var out []string
	// single primitives: integer and byte-array boundaries
	for _, s := range []string{"p0", "p1", "p2", "p3", "p4", "p5", "p6", "x1", "x7f", "x80", "xff", "x100", "x-80", "x-81", "x-100",
		"x7fffffffffffffff", "x8000000000000000", "x-8000000000000000", "x-8000000000000001", "x10000000000000000",
		"x" + strings.Repeat("ff", 31), "x80" + strings.Repeat("00", 31), "x-80" + strings.Repeat("00", 31),
		"x" + strings.Repeat("ff", 32), "x-" + strings.Repeat("ff", 32),
		"b1", "b75", "b252", "b253", "b65535", "b65536",
		"b" + strconv.Itoa(constants.MAX_BYTEARRAY_SIZE-6), "b" + strconv.Itoa(constants.MAX_BYTEARRAY_SIZE-5),
		"b" + strconv.Itoa(constants.MAX_BYTEARRAY_SIZE-4), "b" + strconv.Itoa(constants.MAX_BYTEARRAY_SIZE)} {
		out = append(out, s)
	}
	// chains of L nested containers around the depth limit
	for L := 1; L <= MAX_STRUCT_DEPTH+3; L++ {
		for _, pat := range []string{"A", "S", "M", "ASM"} {
			for _, inner := range []string{"", "p0"} {
				for _, pos := range []int{0, 1} {
					var parts []string
					for i := 0; i < L; i++ {
						k := string(pat[i%len(pat)])
						body := inner
						if i < L-1 {
							body = "n" + strconv.Itoa(i+1)
						}
						if pos == 1 && body != "" {
							body = "p4," + body
						}
						parts = append(parts, k+":"+body)
					}
					out = append(out, strings.Join(parts, ";"))
				}
			}
		}
	}
	// diamond at the depth limit: two paths of different length to the same node
	for _, L := range []int{MAX_STRUCT_DEPTH - 1, MAX_STRUCT_DEPTH, MAX_STRUCT_DEPTH + 1} {
		// root -> n1 directly and root -> n2 -> n1 ; n1 starts a chain of L-2 more containers ending in a primitive
		parts := []string{"A:n1,n2", "", "A:n1"}
		chain := []string{}
		for i := 0; i < L-2; i++ {
			body := "p0"
			if i < L-3 {
				body = "n" + strconv.Itoa(3+i+1)
			}
			chain = append(chain, "A:"+body)
		}
		if len(chain) == 0 {
			continue
		}
		parts[1] = "A:n3"
		out = append(out, strings.Join(append(parts, chain...), ";"))
	}
	// element-count limits and sort order of many map keys
	out = append(out,
		"A:"+strconv.Itoa(constants.MAX_ARRAY_SIZE)+"*p0",
		"S:"+strconv.Itoa(constants.MAX_ARRAY_SIZE)+"*p5",
		"A:"+strconv.Itoa(constants.MAX_ARRAY_SIZE-1)+"*p0",
		"M:300*p0",
		"M:130*p1",
		// shared sub-values: expanded 1024 times; expanded twice to exactly the size limit / one step above it
		"A:1024*n1;A:6*p0",
		"S:128*n1;M:20*p3",
		"A:n1,n1;S:b"+strconv.Itoa((constants.MAX_BYTEARRAY_SIZE-18)/2),
		"A:n1,n1;S:b"+strconv.Itoa((constants.MAX_BYTEARRAY_SIZE-18)/2+1),
		"A:n1,n1,n1;A:n2,n2,n2;A:n3,n3,n3;A:n4,n4,n4;A:n5,n5,n5;A:n6,n6,n6;A:n7,n7,n7;A:n8,n8,n8;S:p0,p5",
		// cycles behind wide / deep acyclic material
		"A:20*p0,n0",
		"A:n1,n1,n1;A:n2,n2,n2;A:n3,n3,n3;A:n4,n4,n4;A:p0,n0",
		"A:p0,n1;A:p0,n2;A:p0,n3;A:p0,n4;A:p0,n5;A:p0,n6;A:p0,n7;A:p0,n8;A:p0,n9;A:p0,n0",
	)
	return out
}

// c14enum calls f for every graph case in a fixed order; idx is the case
// number.  f returns false to stop.
func c14enum(tier string, f func(idx int, g *c14graph) bool) {
	idx := 0
	for _, s := range c14special() {
		g, err := c14parse(s)
		if err != nil {
			panic("c14special: " + s + ": " + err.Error())
		}
		if !f(idx, g) {
			return
		}
		idx++
	}
	for _, fam := range c14families(tier) {
		stop := false
		c14enumFamily(fam, func(g *c14graph) bool {
			if !f(idx, g) {
				stop = true
				return false
			}
			idx++
			return true
		})
		if stop {
			return
		}
	}
}

// c14enumFamily calls f for every canonical graph of one family (fixed order); f returns false to stop.
// The graph object is reused between calls.
func c14enumFamily(fam c14family, f func(g *c14graph) bool) {
	n := fam.nodes
	alpha := fam.prims + n // slot alphabet: prims then refs
	g := &c14graph{kinds: make([]byte, n), slots: make([][]c14slot, n)}
	// per node: kind (3) x slot vector of length 0..maxSlots
	// enumerate with an explicit odometer over nodes
	type nodeCfg struct {
		kind  int
		slots []int
	}
	var cfgs []nodeCfg
	for k := 0; k < 3; k++ {
		for l := 0; l <= fam.maxSlots; l++ {
			radix := make([]int, l)
			for i := range radix {
				radix[i] = alpha
			}
			if l == 0 {
				cfgs = append(cfgs, nodeCfg{k, nil})
				continue
			}
			vh.Odometer(radix, func(d []int) bool {
				cfgs = append(cfgs, nodeCfg{k, append([]int{}, d...)})
				return true
			})
		}
	}
	radix := make([]int, n)
	for i := range radix {
		radix[i] = len(cfgs)
	}
	vh.Odometer(radix, func(d []int) bool {
		for i, c := range d {
			g.kinds[i] = "ASM"[cfgs[c].kind]
			sl := g.slots[i][:0]
			for _, x := range cfgs[c].slots {
				if x < fam.prims {
					sl = append(sl, c14slot{ref: -1, prim: c14primSyms[x]})
				} else {
					sl = append(sl, c14slot{ref: x - fam.prims})
				}
			}
			g.slots[i] = sl
		}
		if !c14canonical(g) {
			return true
		}
		return f(g)
	})
}

// ---------------------------------------------------------------------------
// structural equality of two (acyclic) values
// ---------------------------------------------------------------------------

func c14eq(a, b *VmValue) bool {
	isInt := func(v *VmValue) bool { return v.valType == integerType || v.valType == bigintType }
	if isInt(a) || isInt(b) {
		if !isInt(a) || !isInt(b) {
			return false
		}
		x, e1 := a.AsBigInt()
		y, e2 := b.AsBigInt()
		return e1 == nil && e2 == nil && x.Cmp(y) == 0
	}
	if a.valType != b.valType {
		return false
	}
	switch a.valType {
	case boolType:
		return (a.integer != 0) == (b.integer != 0)
	case bytearrayType:
		return bytes.Equal(a.byteArray, b.byteArray)
	case arrayType:
		if a.array == nil || b.array == nil || len(a.array.Data) != len(b.array.Data) {
			return false
		}
		for i := range a.array.Data {
			if !c14eq(&a.array.Data[i], &b.array.Data[i]) {
				return false
			}
		}
		return true
	case structType:
		if a.structval == nil || b.structval == nil || len(a.structval.Data) != len(b.structval.Data) {
			return false
		}
		for i := range a.structval.Data {
			if !c14eq(&a.structval.Data[i], &b.structval.Data[i]) {
				return false
			}
		}
		return true
	case mapType:
		if a.mapval == nil || b.mapval == nil || len(a.mapval.Data) != len(b.mapval.Data) {
			return false
		}
		for k, av := range a.mapval.Data {
			bv, ok := b.mapval.Data[k]
			if !ok || !c14eq(&av[0], &bv[0]) || !c14eq(&av[1], &bv[1]) {
				return false
			}
		}
		return true
	}
	return false
}

func c14errClass(err error) string {
	switch {
	case err == nil:
		return "ok"
	case err == io.ErrUnexpectedEOF:
		return "eof"
	case err == common.ErrIrregularData:
		return "irregular"
	case err == errors.ERR_BAD_TYPE:
		return "badtype"
	case err == errors.ERR_OVER_MAX_ARRAY_SIZE:
		return "over-array-size"
	case err == errors.ERR_OVER_MAX_ITEM_SIZE:
		return "over-item-size"
	case err == errors.ERR_OVER_MAX_BIGINTEGER_SIZE:
		return "over-int-size"
	}
	s := err.Error()
	switch {
	case strings.Contains(s, "circular"):
		return "circular-or-depth"
	case strings.Contains(s, "depth"):
		return "depth"
	case strings.Contains(s, "uplimit"), strings.Contains(s, "too long"), strings.Contains(s, "over max"):
		return "limit"
	}
	if len(s) > 28 {
		s = s[:28]
	}
	return s
}

// ---------------------------------------------------------------------------
// the operations and the oracle (run inside the worker)
// ---------------------------------------------------------------------------

var c14ops = []string{"detect", "serialize", "native", "stringify", "dump", "hexstring", "resultfromneo"}

const c14reps = 8 // repetitions of an op on a cyclic graph that contains a multi-entry map (Go map order is random)

type c14viol struct {
	Key    string `json:"key"`
	Detail string `json:"detail"`
	Desc   string `json:"desc"`
	Op     string `json:"op"`
}

type c14batch struct {
	From    int              `json:"from"`
	To      int              `json:"to"`
	Evals   int64            `json:"evals"`
	Skipped int64            `json:"skipped"`
	Classes map[string]int64 `json:"classes"`
	Viol    []c14viol        `json:"viol"`
	More    map[string]int64 `json:"more"` // further violations per key (cases not retained)
	Samples []string         `json:"samples"`
	Done    bool             `json:"done"`
	Total   int              `json:"total"`
}

// c14runOp runs one op on the built value and returns the outcome class and a
// violation ("" key = none).  It must only be called in the worker process.
func c14runOp(v *VmValue, g *c14graph, in *c14info, op string) (class string, key string, detail string) {
	reps := 1
	if in.cyclic && in.multiMap {
		reps = c14reps
	}
	var out string // outcome of the last repetition
	for rep := 0; rep < reps; rep++ {
		var err error
		var rejected bool
		var ser []byte
		p := vh.Catch(func() {
			switch op {
			case "detect":
				var b bool
				b, err = v.CircularRefAndDepthDetection()
				rejected = b || err != nil
			case "serialize":
				sink := common.NewZeroCopySink(nil)
				err = v.Serialize(sink)
				rejected = err != nil
				ser = sink.Bytes()
			case "native":
				sink := common.NewZeroCopySink(nil)
				err = v.BuildParamToNative(sink)
				rejected = err != nil
			case "stringify":
				_, err = v.Stringify()
				rejected = err != nil
			case "dump":
				s := v.Dump()
				rejected = strings.HasPrefix(s, "error")
			case "hexstring":
				_, err = v.ConvertNeoVmValueHexString()
				rejected = err != nil
			case "resultfromneo":
				sink := common.NewZeroCopySink(nil)
				err = BuildResultFromNeo(*v, sink)
				rejected = err != nil
			}
		})
		if p != "" {
			return op + ":panic", c14key(op, in.cls, "panic"), fmt.Sprintf("%s on %s panicked: %s", op, g, p)
		}
		if rejected {
			out = "rejected"
		} else {
			out = "accepted"
		}
		if in.cyclic {
			if !rejected {
				if op == "detect" {
					// the detector is the mechanism, not a serializer: its answer is recorded, the verdict comes from the marshalling ops
					return "detect:" + in.cls + ":undetected", "", ""
				}
				return op + ":cyclic:accepted", c14key(op, in.cls, "no-error"), fmt.Sprintf("%s on the cyclic value %s returned without an error (repetition %d)", op, g, rep)
			}
			continue
		}
		if op == "serialize" && in.within {
			// round trip
			feat := in.kinds
			if in.shared {
				feat = "shared-ref"
			}
			if in.maxDepth >= MAX_STRUCT_DEPTH {
				feat = "depth=" + strconv.Itoa(in.maxDepth)
			} else if in.size >= constants.MAX_BYTEARRAY_SIZE-8 {
				feat = "size-limit"
			}
			if err != nil {
				return "roundtrip:failed", "roundtrip:serialize-error:" + c14errClass(err) + ":" + feat,
					fmt.Sprintf("Serialize of the acyclic value %s (depth %d, %d bytes) failed: %v", g, in.maxDepth, in.size, err)
			}
			var back VmValue
			src := common.NewZeroCopySource(ser)
			var derr error
			p := vh.Catch(func() { derr = back.Deserialize(src) })
			if p != "" {
				return "roundtrip:failed", "roundtrip:deserialize-panic:" + feat, fmt.Sprintf("Deserialize(Serialize(%s)) panicked: %s", g, p)
			}
			if derr != nil {
				return "roundtrip:failed", "roundtrip:deserialize-error:" + feat,
					fmt.Sprintf("Deserialize(Serialize(%s)) failed: %v (encoding %s)", g, derr, vh.Hex(ser))
			}
			if src.Len() != 0 {
				return "roundtrip:failed", "roundtrip:trailing-bytes:" + feat,
					fmt.Sprintf("Deserialize(Serialize(%s)) left %d bytes unread", g, src.Len())
			}
			if !c14eq(v, &back) {
				return "roundtrip:failed", "roundtrip:not-equal:" + feat,
					fmt.Sprintf("Deserialize(Serialize(%s)) is not structurally equal to the original (encoding %s)", g, vh.Hex(ser))
			}
			if len(ser) != in.size {
				// the reference size decides "within the size limit"; a disagreement would make that classification unreliable
				return "roundtrip:failed", "harness:size-model", fmt.Sprintf("%s: serialized %d bytes, size model says %d", g, len(ser), in.size)
			}
			if in.maxDepth == MAX_STRUCT_DEPTH {
				return "roundtrip:ok:at-depth-limit", "", ""
			}
			if in.size >= constants.MAX_BYTEARRAY_SIZE-8 {
				return "roundtrip:ok:at-size-limit", "", ""
			}
			if in.shared {
				return "roundtrip:ok:" + in.kinds + "+shared", "", ""
			}
			return "roundtrip:ok:" + feat, "", ""
		}
	}
	if in.cyclic {
		return op + ":" + in.cls + ":rejected", "", ""
	}
	if !in.within {
		// the statement is silent on values outside the limits: only termination without panic is required
		return op + ":" + in.cls, "", ""
	}
	return op + ":acyclic:" + out, "", ""
}

// ---------------------------------------------------------------------------
// worker
// ---------------------------------------------------------------------------

type c14work struct {
	Tier     string   `json:"tier"`
	Shard    int      `json:"shard"`
	NShards  int      `json:"nshards"`
	From     int      `json:"from"`
	Batch    int      `json:"batch"`
	Skip     []string `json:"skip"`     // "idx.op" positions that killed a worker before
	SkipKeys []string `json:"skipkeys"` // "op:class" combinations no longer run (cap after repeated deaths)
	Descs    []string `json:"descs"`    // explicit cases instead of the enumeration (replay / hang confirmation)
	Ops      []string `json:"ops"`      // restrict ops (explicit cases)
	MaxStack int      `json:"maxstack"` // MiB; 0 = 8; <0 = the runtime's default (1 GB on 64-bit)
	Progress string   `json:"progress"`
	Results  string   `json:"results"`
}

const c14progSize = 4096

func TestVerif_C14_Worker(t *testing.T) {
	spec := os.Getenv("VERIF_C14_WORK")
	if spec == "" {
		t.Skip("worker entry point of TestVerif_C14")
	}
	var w c14work
	if err := json.Unmarshal([]byte(spec), &w); err != nil {
		t.Fatalf("bad work spec: %v", err)
	}
	if w.MaxStack == 0 {
		w.MaxStack = 8
	}
	if w.MaxStack > 0 {
		debug.SetMaxStack(w.MaxStack << 20)
	}
	// no GC cycles while a runaway recursion is growing the stack (every cycle would rescan the whole deep stack):
	// collect only when the heap reaches the soft limit
	debug.SetGCPercent(-1)
	debug.SetMemoryLimit(768 << 20)
	// address-space cap so that a runaway allocation cannot hurt the shared machine
	lim := syscall.Rlimit{Cur: 6 << 30, Max: 6 << 30}
	syscall.Setrlimit(syscall.RLIMIT_AS, &lim)
	log.InitLog(log.MaxLevelLog)

	pf, err := os.OpenFile(w.Progress, os.O_RDWR|os.O_CREATE, 0644)
	if err != nil {
		t.Fatalf("progress file: %v", err)
	}
	pf.Truncate(c14progSize)
	prog, err := syscall.Mmap(int(pf.Fd()), 0, c14progSize, syscall.PROT_READ|syscall.PROT_WRITE, syscall.MAP_SHARED)
	if err != nil {
		t.Fatalf("mmap: %v", err)
	}
	rf, err := os.OpenFile(w.Results, os.O_WRONLY|os.O_CREATE|os.O_APPEND, 0644)
	if err != nil {
		t.Fatalf("results file: %v", err)
	}
	defer rf.Close()

	skip := map[string]bool{}
	for _, s := range w.Skip {
		skip[s] = true
	}
	skipKeys := map[string]bool{}
	for _, s := range w.SkipKeys {
		skipKeys[s] = true
	}
	ops := c14ops
	if len(w.Ops) > 0 {
		ops = w.Ops
	}
	if w.NShards < 1 {
		w.NShards = 1
	}
	if w.Batch < 1 {
		w.Batch = 1 << 30
	}

	var seq uint64
	mark := func(idx int, op string, cls string, desc string) {
		// layout: seq(8) len(4) text ; seq is written last
		txt := strconv.Itoa(idx) + "\x00" + op + "\x00" + cls + "\x00" + desc
		if len(txt) > c14progSize-16 {
			txt = txt[:c14progSize-16]
		}
		binary.LittleEndian.PutUint32(prog[8:], uint32(len(txt)))
		copy(prog[12:], txt)
		seq++
		binary.LittleEndian.PutUint64(prog[0:], seq)
	}

	cur := c14batch{From: w.From, Classes: map[string]int64{}}
	flush := func(to int, done bool, total int) {
		cur.To, cur.Done, cur.Total = to, done, total
		b, _ := json.Marshal(&cur)
		rf.Write(append(b, '\n'))
		cur = c14batch{From: to, Classes: map[string]int64{}}
	}

	runCase := func(idx int, g *c14graph) {
		in := c14analyse(g)
		desc := g.String()
		mark(idx, "build", in.cls, desc)
		v, err := c14build(g)
		if err != nil {
			cur.Viol = append(cur.Viol, c14viol{"harness:build", "cannot build " + desc + ": " + err.Error(), desc, "build"})
			return
		}
		for _, op := range ops {
			if skip[strconv.Itoa(idx)+"."+op] || skipKeys[op+":"+in.cls] {
				cur.Skipped++
				continue
			}
			mark(idx, op, in.cls, desc)
			class, key, detail := c14runOp(&v, g, &in, op)
			cur.Evals++
			cur.Classes[class]++
			if key != "" {
				n := 0
				for _, x := range cur.Viol {
					if x.Key == key {
						n++
					}
				}
				if n < 3 {
					cur.Viol = append(cur.Viol, c14viol{key, detail, desc, op})
				} else {
					if cur.More == nil {
						cur.More = map[string]int64{}
					}
					cur.More[key]++
				}
			}
		}
		if len(cur.Samples) < 2 && (in.cyclic || in.shared) {
			cur.Samples = append(cur.Samples, desc)
		}
	}

	if len(w.Descs) > 0 {
		for i, d := range w.Descs {
			g, err := c14parse(d)
			if err != nil {
				t.Fatalf("bad desc %q: %v", d, err)
			}
			runCase(i, g)
		}
		mark(len(w.Descs), "end", "", "")
		flush(len(w.Descs), true, len(w.Descs))
		return
	}

	total := 0
	nSpecial := len(c14special())
	c14enum(w.Tier, func(idx int, g *c14graph) bool {
		total = idx + 1
		if idx < w.From {
			return true
		}
		if idx > cur.From && (idx%w.Batch == 0 || idx == nSpecial) {
			flush(idx, false, 0)
		}
		if idx%w.NShards != w.Shard {
			return true
		}
		runCase(idx, g)
		return true
	})
	mark(total, "end", "", "")
	flush(total, true, total)
}

// ---------------------------------------------------------------------------
// parent: worker orchestration
// ---------------------------------------------------------------------------

type c14case struct {
	Desc  string   `json:"desc,omitempty"`
	Op    string   `json:"op,omitempty"`
	Bytes string   `json:"bytes,omitempty"`
	Hist  *c14hist `json:"hist,omitempty"` // a case of the unit "history" (C14_history_test.go)
	Mut   *c14mut  `json:"mut,omitempty"`  // a case of the unit "mutation" (C14_mutation_test.go)
}

type c14exit struct {
	died   bool // worker ended abnormally (not by our kill)
	hung   bool // killed by the watchdog
	idx    int
	op     string
	cls    string
	desc   string
	stderr string
}

func c14readProgress(path string) (seq uint64, idx int, op, cls, desc string) {
	b, err := os.ReadFile(path)
	if err != nil || len(b) < 12 {
		return 0, -1, "", "", ""
	}
	seq = binary.LittleEndian.Uint64(b)
	n := int(binary.LittleEndian.Uint32(b[8:]))
	if n > len(b)-12 {
		n = len(b) - 12
	}
	parts := strings.SplitN(string(b[12:12+n]), "\x00", 4)
	if len(parts) < 4 {
		return seq, -1, "", "", ""
	}
	idx, _ = strconv.Atoi(parts[0])
	return seq, idx, parts[1], parts[2], parts[3]
}

// c14spawn runs one worker to completion (or death / watchdog kill) and
// returns the batches it completed.
func c14spawn(w c14work, dir string, n int, stall time.Duration, stop func() bool) ([]c14batch, c14exit) {
	w.Progress = filepath.Join(dir, fmt.Sprintf("progress_%d", n))
	w.Results = filepath.Join(dir, fmt.Sprintf("results_%d", n))
	errPath := filepath.Join(dir, fmt.Sprintf("stderr_%d", n))
	spec, _ := json.Marshal(&w)
	bin := os.Getenv("VERIF_BIN")
	if bin == "" {
		bin = os.Args[0]
	}
	if !filepath.IsAbs(bin) {
		if a, err := filepath.Abs(bin); err == nil {
			bin = a
		}
	}
	cmd := exec.Command(bin, "-test.run", "^TestVerif_C14_Worker$", "-test.timeout", "0", "-test.count", "1")
	cmd.Env = append(os.Environ(), "VERIF_C14_WORK="+string(spec), "VERIF_OUT=", "VERIF_REPLAY=", "GOTRACEBACK=none")
	cmd.Dir = dir
	ef, _ := os.Create(errPath)
	cmd.Stdout, cmd.Stderr = ef, ef
	var ex c14exit
	if err := cmd.Start(); err != nil {
		ef.Close()
		ex.died, ex.stderr, ex.idx = true, "cannot start worker: "+err.Error(), -2
		return nil, ex
	}
	doneCh := make(chan error, 1)
	go func() { doneCh <- cmd.Wait() }()
	var werr error
	// watchdog: the worker is stalled when it burned `stall` of CPU time (or 20x that of wall time, for a blocked
	// process) without publishing a new (case, op) -- CPU time, so that an overloaded machine does not look like a hang
	lastSeq, lastChange, lastCPU := uint64(0), time.Now(), c14cpu(cmd.Process.Pid)
	tick := time.NewTicker(200 * time.Millisecond)
	defer tick.Stop()
loop:
	for {
		select {
		case werr = <-doneCh:
			break loop
		case <-tick.C:
			seq, _, _, _, _ := c14readProgress(w.Progress)
			cpu := c14cpu(cmd.Process.Pid)
			if seq != lastSeq {
				lastSeq, lastChange, lastCPU = seq, time.Now(), cpu
			} else if cpu-lastCPU > stall || time.Since(lastChange) > 20*stall || stop() {
				ex.hung = !stop()
				cmd.Process.Kill()
				werr = <-doneCh
				break loop
			}
		}
	}
	ef.Close()
	var batches []c14batch
	if b, err := os.ReadFile(w.Results); err == nil {
		for _, line := range bytes.Split(b, []byte("\n")) {
			var bt c14batch
			if len(line) > 0 && json.Unmarshal(line, &bt) == nil {
				batches = append(batches, bt)
			}
		}
	}
	finished := len(batches) > 0 && batches[len(batches)-1].Done
	if werr != nil || !finished {
		_, ex.idx, ex.op, ex.cls, ex.desc = c14readProgress(w.Progress)
		if !ex.hung {
			ex.died = true
		}
		if b, err := os.ReadFile(errPath); err == nil {
			s := string(b)
			if i := strings.Index(s, "fatal error:"); i >= 0 {
				s = s[i:]
			} else if i := strings.Index(s, "runtime:"); i >= 0 {
				s = s[i:]
			}
			if j := strings.IndexByte(s, '\n'); j >= 0 {
				s = s[:j]
			}
			if len(s) > 160 {
				s = s[:160]
			}
			if s == "" && werr != nil {
				s = werr.Error()
			}
			ex.stderr = strings.TrimSpace(s)
		}
	}
	os.Remove(w.Progress)
	os.Remove(w.Results)
	os.Remove(errPath)
	return batches, ex
}

// c14cpu returns the CPU time (user+system) consumed so far by process pid.
func c14cpu(pid int) time.Duration {
	b, err := os.ReadFile("/proc/" + strconv.Itoa(pid) + "/stat")
	if err != nil {
		return 0
	}
	s := string(b)
	if i := strings.LastIndexByte(s, ')'); i >= 0 {
		s = s[i+1:]
	}
	f := strings.Fields(s) // f[0] is field 3 (state); utime, stime are fields 14, 15
	if len(f) < 13 {
		return 0
	}
	u, _ := strconv.ParseInt(f[11], 10, 64)
	k, _ := strconv.ParseInt(f[12], 10, 64)
	return time.Duration(u+k) * (time.Second / 100)
}

func c14merge(r *vh.Run, b c14batch) {
	r.Eval(b.Evals)
	for k, n := range b.Classes {
		r.ClassN(k, n)
	}
	for _, v := range b.Viol {
		r.Violation(v.Key, v.Detail, c14case{Desc: v.Desc, Op: v.Op})
	}
	for k, n := range b.More {
		for i := int64(0); i < n; i++ {
			r.Violation(k, "", nil)
		}
	}
	for _, s := range b.Samples {
		r.Sample(c14case{Desc: s})
	}
	if b.Skipped > 0 {
		r.Add("ops_skipped_after_repeated_worker_deaths", b.Skipped)
	}
}

// c14slot* : machine-wide semaphore (flock) for the confirmation runs under
// the default 1 GB stack limit, which need ~0.8 GB of memory each.
const c14confirmSlots = 8

func c14acquireSlot(stop func() bool) *os.File {
	dir := filepath.Join(os.TempDir(), "..", "c14slots")
	if os.Getenv("VERIF_DIR") != "" {
		dir = filepath.Join(os.Getenv("VERIF_DIR"), "build", "tmp", "c14slots")
	}
	os.MkdirAll(dir, 0777)
	for {
		for i := 0; i < c14confirmSlots; i++ {
			f, err := os.OpenFile(filepath.Join(dir, "slot"+strconv.Itoa(i)), os.O_RDWR|os.O_CREATE, 0666)
			if err != nil {
				return nil // no semaphore available: run unguarded
			}
			if syscall.Flock(int(f.Fd()), syscall.LOCK_EX|syscall.LOCK_NB) == nil {
				return f
			}
			f.Close()
		}
		if stop() {
			return nil
		}
		time.Sleep(300 * time.Millisecond)
	}
}

var c14procSeq int64
var c14procMu sync.Mutex

func c14nextProc() int {
	c14procMu.Lock()
	defer c14procMu.Unlock()
	c14procSeq++
	return int(c14procSeq)
}

// c14confirm re-runs one (case, op) alone under the runtime's default stack
// limit (what a node runs with).  Only what happens there is a verdict: the
// routine enumeration uses a 8 MiB stack to make runaway recursion cheap, and
// a recursion that is deep but bounded (e.g. by a size cap) must not be
// reported as a crash.
func c14confirm(r *vh.Run, dir string, desc, op, cls string, stall time.Duration) {
	cs := c14case{Desc: desc, Op: op}
	never := func() bool { return false }
	slot := c14acquireSlot(never)
	defer func() {
		if slot != nil {
			slot.Close()
		}
	}()
	for attempt := 0; ; attempt++ {
		// a verdict that was started is finished, deadline or not (the set of reported keys must not depend on timing)
		batches, ex := c14spawn(c14work{Tier: r.R.Tier, Descs: []string{desc}, Ops: []string{op}, MaxStack: -1}, dir, c14nextProc(), stall, never)
		switch {
		case ex.died:
			r.Violationf(c14key(op, cls, "stack-overflow"), cs, "%s on %s killed the process (default 1 GB stack limit): %s", c14api[op], desc, ex.stderr)
			r.Class(op + ":process-killed")
			r.Eval(1)
			r.Add("worker_deaths_confirmed", 1)
		case ex.hung:
			if attempt == 0 {
				continue
			}
			r.Violationf(c14key(op, cls, "hang"), cs, "%s on %s made no progress for %v of CPU time (twice, in fresh processes)", op, desc, stall)
			r.Class(op + ":hang")
			r.Eval(1)
		default:
			// it terminated under the real stack limit: whatever the worker observed is the outcome
			for _, b := range batches {
				c14merge(r, b)
			}
			r.Class(op + ":" + cls + ":deep-recursion-ends-only-under-default-stack")
			r.Add("deep_but_bounded_recursions", 1)
		}
		return
	}
}

// c14rendezvous: file through which shard 0 tells the other shards of the same
// vcheck run which (op, class) combinations killed a worker in phase 1.
func c14rendezvous() string {
	out := os.Getenv("VERIF_OUT")
	if out == "" {
		return ""
	}
	base := filepath.Base(out)
	tag := ""
	if strings.Contains(base, "_confirm") {
		tag = "c"
	}
	return filepath.Join(filepath.Dir(out), fmt.Sprintf("phase1_%d%s.skipkeys", os.Getppid(), tag))
}

type c14runner struct {
	mu       sync.Mutex
	r        *vh.Run
	dir      string
	stall    time.Duration
	confirms sync.WaitGroup
	skipKeys []string
	ndeaths  int
	stalls   int
}

// handle decides what to do after a worker death / stall at ex: the verdict
// comes from a background run under the default stack limit; returns the
// position to skip.
func (c *c14runner) handle(ex c14exit) string {
	r := c.r
	if ex.idx == -2 {
		r.Need(false, "%s", ex.stderr)
	}
	if ex.idx < 0 || ex.op == "" || ex.op == "end" || ex.op == "build" {
		r.Need(false, "worker died outside a case (idx=%d op=%q): %s", ex.idx, ex.op, ex.stderr)
	}
	c.confirms.Add(1)
	go func(desc, op, cls string) {
		defer c.confirms.Done()
		c14confirm(r, c.dir, desc, op, cls, 5*c.stall)
	}(ex.desc, ex.op, ex.cls)
	c.mu.Lock()
	defer c.mu.Unlock()
	if ex.hung {
		c.stalls++
		// a stall only takes this (case, op) out; a class is taken out by a death
		r.Capped("a worker stalled on " + ex.op + " of " + ex.desc)
	} else {
		c.ndeaths++
		c.skipKeys = append(c.skipKeys, ex.op+":"+ex.cls)
		sort.Strings(c.skipKeys)
		r.Capped("the (op,class) combinations " + strings.Join(c.skipKeys, ", ") + " are not run on further cases after the smallest case of each killed a worker")
	}
	return strconv.Itoa(ex.idx) + "." + ex.op
}

func c14graphs(r *vh.Run, dir string, shard, nshards int) {
	c := &c14runner{r: r, dir: dir, stall: 60 * time.Second} // stall: CPU time
	defer c.confirms.Wait()
	never := func() bool { return false }
	rdv := c14rendezvous()

	// phase 1: the minimal cyclic values, all ops, in shard 0 (not subject to the deadline: it produces the verdicts)
	phase1 := func() {
		// one worker chain per operation, in parallel: a chain restarts after each death of its operation
		var wg sync.WaitGroup
		for _, op := range c14ops {
			wg.Add(1)
			go func(op string) {
				defer wg.Done()
				w := c14work{Tier: r.R.Tier, Descs: c14minimalCyclic(), Ops: []string{op}}
				for n := 0; ; n++ {
					c.mu.Lock()
					w.SkipKeys = append([]string{}, c.skipKeys...)
					c.mu.Unlock()
					batches, ex := c14spawn(w, dir, c14nextProc(), c.stall, never)
					if len(batches) > 0 && batches[len(batches)-1].Done {
						for _, b := range batches {
							c14merge(r, b)
						}
						return
					}
					w.Skip = append(w.Skip, c.handle(ex))
					r.Need(n <= 20, "phase 1 does not converge for %s", op)
				}
			}(op)
		}
		wg.Wait()
	}
	if shard == 0 {
		phase1()
		if rdv != "" {
			b, _ := json.Marshal(c.skipKeys)
			os.WriteFile(rdv+".tmp", b, 0644)
			os.Rename(rdv+".tmp", rdv)
		}
	} else {
		got := false
		for waited := 0; waited < 3000 && rdv != ""; waited++ { // up to 10 min
			if b, err := os.ReadFile(rdv); err == nil && json.Unmarshal(b, &c.skipKeys) == nil {
				got = true
				break
			}
			time.Sleep(200 * time.Millisecond)
		}
		if !got {
			phase1()
		} else if len(c.skipKeys) > 0 {
			r.Capped("the (op,class) combinations " + strings.Join(c.skipKeys, ", ") + " are not run on further cases after the smallest case of each killed a worker (decided in shard 0)")
		}
	}

	// phase 2: the enumeration
	w := c14work{Tier: r.R.Tier, Shard: shard, NShards: nshards, Batch: 20000 * nshards}
	for {
		if r.Expired() {
			return
		}
		w.SkipKeys = c.skipKeys
		batches, ex := c14spawn(w, dir, c14nextProc(), c.stall, r.Expired)
		finished := false
		for _, b := range batches {
			c14merge(r, b)
			w.From = b.To
			if b.Done {
				finished = true
				r.Set("graph_cases_total", int64(b.Total+len(c14minimalCyclic())))
			}
		}
		if finished {
			break
		}
		if r.Expired() {
			return
		}
		w.Skip = append(w.Skip, c.handle(ex))
		if c.ndeaths > 100 || c.stalls > 5 {
			r.Capped("too many worker deaths/stalls; graph enumeration abandoned")
			return
		}
	}
	r.Set("worker_deaths_small_stack", int64(c.ndeaths))
	r.Set("worker_stalls_small_stack", int64(c.stalls))
}

// ---------------------------------------------------------------------------
// part B: Deserialize on byte strings (in-process)
// ---------------------------------------------------------------------------

func c14typeName(v *VmValue) string {
	switch v.valType {
	case bytearrayType:
		return "bytes"
	case boolType:
		return "bool"
	case integerType, bigintType:
		return "int"
	case arrayType:
		return "array"
	case structType:
		return "struct"
	case mapType:
		return "map"
	}
	return fmt.Sprintf("type%x", v.valType)
}

// c14acc batches counters of the in-process byte-string part.
type c14acc struct {
	r       *vh.Run
	evals   int64
	classes map[string]int64
}

func (a *c14acc) flush() {
	a.r.Eval(a.evals)
	for k, n := range a.classes {
		a.r.ClassN(k, n)
	}
	a.evals, a.classes = 0, map[string]int64{}
}

func c14tryDeserialize(v *VmValue, src *common.ZeroCopySource) (err error, p string) {
	defer func() {
		if e := recover(); e != nil {
			p = fmt.Sprint(e)
			if p == "" {
				p = "panic"
			}
		}
	}()
	return v.Deserialize(src), ""
}

// c14decode: Deserialize must return a value or an error without panicking;
// an accepted value is itself an acyclic VM value, so if Serialize accepts it
// the round-trip clause applies to it.
func c14decode(a *c14acc, data []byte, origin string) {
	r := a.r
	a.evals++
	var v VmValue
	err, p := c14tryDeserialize(&v, common.NewZeroCopySource(data))
	if p != "" {
		r.Violationf("deserialize:panic:"+origin, c14case{Bytes: vh.Hex(data)}, "Deserialize(%x) panicked: %s", data, p)
		return
	}
	if err != nil {
		if err == errors.ERR_BAD_TYPE {
			a.classes["deserialize:err:badtype"]++
			return
		}
		a.classes["deserialize:err:"+c14errClass(err)]++
		return
	}
	tn := c14typeName(&v)
	a.classes["deserialize:ok:"+tn]++
	var serr, derr error
	var back VmValue
	var left uint64
	sink := common.NewZeroCopySink(nil)
	p = vh.Catch(func() {
		serr = v.Serialize(sink)
		if serr == nil {
			s2 := common.NewZeroCopySource(sink.Bytes())
			derr = back.Deserialize(s2)
			left = s2.Len()
		}
	})
	switch {
	case p != "":
		r.Violationf("reserialize:panic:"+tn, c14case{Bytes: vh.Hex(data)}, "re-serializing the value decoded from %x panicked: %s", data, p)
	case serr != nil:
		a.classes["reserialize:refused:"+c14errClass(serr)]++
	case derr != nil || left != 0 || !c14eq(&v, &back):
		r.Violationf("reserialize:not-equal:"+tn, c14case{Bytes: vh.Hex(data)},
			"value decoded from %x serializes to %x which decodes to a different value (err=%v, unread=%d)", data, sink.Bytes(), derr, left)
	default:
		a.classes["reserialize:ok"]++
	}
}

func c14corpus() [][]byte {
	descs := []string{"p0", "p1", "p2", "p3", "p4", "p5", "p6", "x80", "x-81", "b3", "b75",
		"A:", "S:", "M:", "A:p0", "A:p5,p4,p2", "S:p1,p3", "M:p0", "M:p5,p4,p1",
		"A:n1;A:p0", "A:n1,n1;S:p4,p5", "S:n1,p0;M:p3,n2;A:p1", "M:n1;M:n2;M:p0",
		"A:n1;S:n2;M:n3;A:n4;S:n5;M:p2", "A:p0,n1,n1;A:p5,p5",
	}
	var out [][]byte
	for _, d := range descs {
		g, err := c14parse(d)
		if err != nil {
			panic(err)
		}
		v, err := c14build(g)
		if err != nil {
			panic(err)
		}
		sink := common.NewZeroCopySink(nil)
		if err := v.Serialize(sink); err != nil {
			panic("corpus value " + d + " does not serialize: " + err.Error())
		}
		out = append(out, append([]byte{}, sink.Bytes()...))
	}
	return out
}

func c14nest(tag byte, depth int, inner []byte) []byte {
	var b []byte
	for i := 0; i < depth; i++ {
		b = append(b, tag, 1)
		if tag == mapType {
			b = append(b, boolType, 1) // key
		}
	}
	return append(b, inner...)
}

func c14bytes(r0 *vh.Run, shard, nshards int) {
	r := &c14acc{r: r0, classes: map[string]int64{}}
	defer r.flush()
	item := 0
	// (a) all byte strings up to length L
	maxLen := r0.Pick(3, 4)
	c14decode(r, []byte{}, "short")
	for b0 := 0; b0 < 256; b0++ {
		c14decode(r, []byte{byte(b0)}, "short")
	}
	buf := make([]byte, 0, 4)
	for b0 := 0; b0 < 256 && !r0.Expired(); b0++ {
		for b1 := 0; b1 < 256; b1++ {
			item++
			if item%nshards != shard {
				continue
			}
			c14decode(r, append(buf[:0], byte(b0), byte(b1)), "short")
			for b2 := 0; b2 < 256; b2++ {
				c14decode(r, append(buf[:0], byte(b0), byte(b1), byte(b2)), "short")
				if maxLen >= 4 {
					for b3 := 0; b3 < 256; b3++ {
						c14decode(r, append(buf[:0], byte(b0), byte(b1), byte(b2), byte(b3)), "short")
					}
				}
			}
		}
	}
	// (b) single-byte mutations, truncations, one trailing byte of valid encodings
	for _, enc := range c14corpus() {
		item++
		if item%nshards != shard {
			continue
		}
		c14decode(r, enc, "valid")
		for cut := 0; cut < len(enc); cut++ {
			c14decode(r, enc[:cut], "truncated")
		}
		c14decode(r, append(append([]byte{}, enc...), 0), "trailing")
		m := append([]byte{}, enc...)
		for pos := range m {
			for x := 1; x < 256; x++ {
				m[pos] = enc[pos] ^ byte(x)
				c14decode(r, m, "mutated")
			}
			m[pos] = enc[pos]
		}
	}
	// (c) nesting depth around the decoder's limit, (d) claimed counts / lengths with short bodies
	if shard == 0 {
		for _, tag := range []byte{arrayType, structType, mapType} {
			for _, d := range []int{1, MAX_STRUCT_DEPTH, MAX_STRUCT_DEPTH + 1, MAX_COUNT - 1, MAX_COUNT, MAX_COUNT + 1, MAX_COUNT + 2, 5000} {
				c14decode(r, c14nest(tag, d, []byte{boolType, 1}), "nested")
				c14decode(r, c14nest(tag, d, []byte{tag, 0}), "nested")
			}
			for _, cnt := range []uint64{0, 1, 0xfc, 0xfd, constants.MAX_ARRAY_SIZE - 1, constants.MAX_ARRAY_SIZE, constants.MAX_ARRAY_SIZE + 1, 0xffff, 0x10000,
				0xffffffff, 0x100000000, 1<<63 - 1, 1 << 63, 1<<64 - 1} {
				sk := common.NewZeroCopySink(nil)
				sk.WriteByte(tag)
				sk.WriteVarUint(cnt)
				head := append([]byte{}, sk.Bytes()...)
				c14decode(r, head, "count")
				c14decode(r, append(append([]byte{}, head...), boolType, 1, boolType, 0), "count")
				if cnt <= constants.MAX_ARRAY_SIZE+1 {
					full := append([]byte{}, head...)
					for i := uint64(0); i < cnt; i++ {
						if tag == mapType {
							full = append(full, integerType, 2, byte(i), byte(i>>8)+1)
						}
						full = append(full, boolType, 1)
					}
					c14decode(r, full, "count")
				}
			}
		}
		for _, tag := range []byte{bytearrayType, integerType} {
			for _, l := range []uint64{0, 1, 32, 33, 34, 0xfc, 0xfd, 0xffff, 0x10000, constants.MAX_BYTEARRAY_SIZE, constants.MAX_BYTEARRAY_SIZE + 1,
				0xffffffff, 1 << 63, 1<<64 - 1} {
				sk := common.NewZeroCopySink(nil)
				sk.WriteByte(tag)
				sk.WriteVarUint(l)
				head := append([]byte{}, sk.Bytes()...)
				c14decode(r, head, "length")
				c14decode(r, append(append([]byte{}, head...), 1, 2, 3), "length")
				if l <= constants.MAX_BYTEARRAY_SIZE+1 {
					body := make([]byte, l)
					for i := range body {
						body[i] = 0x7f
					}
					c14decode(r, append(append([]byte{}, head...), body...), "length")
				}
			}
		}
	}
}

// ---------------------------------------------------------------------------

func TestVerif_C14(t *testing.T) {
	r := vh.Start(t, "C14", "vmvalue")
	defer r.Finish()
	log.InitLog(log.MaxLevelLog)
	fams := []string{}
	for _, f := range c14families(r.R.Tier) {
		fams = append(fams, fmt.Sprintf("%d nodes x <=%d slots x %d primitives", f.nodes, f.maxSlots, f.prims))
	}
	r.Rule("G: every value graph with N container nodes (array/struct/map), <=S slots per node, each slot one of P primitives {0,\"\",-1,2^63,0x00,true} or a reference to any node " +
		"(all cycle positions, all sharing patterns; canonical node numbering), plus depth-limit chains (1..MAX_STRUCT_DEPTH+3 containers, chain in slot 0 and slot 1), size-limit and integer/bytes boundary values; " +
		"on each: CircularRefAndDepthDetection, Serialize(+Deserialize, structural equality), BuildParamToNative, Stringify, Dump, ConvertNeoVmValueHexString, BuildResultFromNeo, run in a worker subprocess " +
		"with a 8 MiB stack (a process death or stall is attributed to the (case, op) published before the call and is then decided by re-running that (case, op) alone under the runtime's default stack limit); ops on cyclic graphs containing a multi-entry map are repeated " + strconv.Itoa(c14reps) + "x (map order). " +
		"B: Deserialize on every byte string up to length L, every single-byte mutation/truncation of 25 valid encodings, nesting depths and claimed counts/lengths around the limits; accepted values are re-serialized and compared. " +
		"distinct = (op, input class, outcome) classes")
	r.Bound("graph families: " + strings.Join(fams, "; ") + fmt.Sprintf("; byte strings <=%d", r.Pick(3, 4)))
	r.Assume("a cyclic value must make every serializer/marshaller return an error (Dump: an \"error...\" string), by whatever means; the answer of CircularRefAndDepthDetection itself is recorded as a class only; values beyond the depth/size limits only have to terminate without panic")

	dir, err := os.MkdirTemp("", "c14w")
	r.Need(err == nil, "temp dir: %v", err)
	defer os.RemoveAll(dir)

	var rc c14case
	if r.ReplayCase(&rc) && (rc.Hist != nil || rc.Mut != nil) {
		return // replayed by the unit "history" / "mutation"
	}
	if r.ReplayCase(&rc) && (rc.Desc != "" || rc.Bytes != "") {
		if rc.Bytes != "" {
			var data []byte
			fmt.Sscanf(rc.Bytes, "%x", &data)
			acc := &c14acc{r: r, classes: map[string]int64{}}
			c14decode(acc, data, "replay")
			acc.flush()
			return
		}
		w := c14work{Tier: r.R.Tier, Descs: []string{rc.Desc}, MaxStack: -1}
		if rc.Op != "" {
			w.Ops = []string{rc.Op}
		}
		batches, ex := c14spawn(w, dir, 0, 300*time.Second, func() bool { return false })
		for _, b := range batches {
			c14merge(r, b)
		}
		if ex.died {
			r.Violationf(c14key(ex.op, ex.cls, "stack-overflow"), rc, "%s on %s killed the process (default 1 GB stack limit): %s", c14api[ex.op], ex.desc, ex.stderr)
		} else if ex.hung {
			r.Violationf(c14key(ex.op, ex.cls, "hang"), rc, "%s on %s made no progress for 300s", ex.op, ex.desc)
		}
		return
	}

	// work split: on the quick tier the (cheap) graph part runs in shard 0 only, so that a tree on which workers
	// die pays for each death once; the byte-string part is split over the other shards
	n, me := r.R.NShards, r.R.Shard
	gShard, gN, bShard, bN := me, n, me, n
	if r.Quick() && n > 1 {
		gShard, gN, bShard, bN = me, 1, me-1, n-1 // shard 0: graphs; shards 1..n-1: bytes
	}
	var wg sync.WaitGroup
	if bShard >= 0 {
		wg.Add(1)
		go func() {
			defer wg.Done()
			c14bytes(r, bShard, bN)
		}()
	}
	if gShard < gN {
		c14graphs(r, dir, gShard, gN)
	}
	wg.Wait()

	// non-vacuity
	need := func(c string) {
		r.Need(r.R.Classes[c] > 0, "outcome class %q never observed", c)
	}
	if bShard == 0 {
		need("deserialize:ok:array")
		need("deserialize:ok:map")
		need("deserialize:err:eof")
		need("deserialize:err:depth")
		need("reserialize:ok")
	}
	if gShard == 0 && gN == 1 && !r.R.CapHit {
		need("roundtrip:ok:at-depth-limit")
		need("roundtrip:ok:at-size-limit")
		need("roundtrip:ok:AMS+shared")
		need("serialize:overdepth")
		need("serialize:oversize")
		need("serialize:cyclic:first-slot-path:rejected")
		need("serialize:cyclic:behind-array-slot>0:rejected")
		need("native:cyclic:behind-struct-slot>0:rejected")
	}
}

package types

// C14 — mutation histories on ONE map object.
//
// The statement quantifies over all acyclic VM values within the limits.  The
// parts "vmvalue" and "history" BUILD a value (Set on a fresh map, once per
// entry) and serialize it; a contract's map however is the result of a history
// of SETITEM / REMOVE / (Reset) / KEYS / VALUES / Serialize calls on the same
// object, and whatever bookkeeping MapValue keeps next to Data (key order,
// caches) is a function of that history, not of the value.  This part runs
// every history up to a fixed length over a small alphabet of such calls on one
// MapValue and, after every history, requires the statement itself:
//
//	Serialize(m) succeeds, Deserialize of the bytes succeeds, consumes all of
//	them and gives a value equal to m -- m bare, and m held by an array / a
//	struct / a map in front of another element (an entry count that does not
//	match the entries written shows there as swallowed / missing elements).
//
// "Equal" is judged on everything the VM can observe of a map: the entries
// (Data: key value with its type, value), KEYS, VALUES.  A plain Go map driven
// by the same history is kept next to the object; it classifies the histories
// (what kind of step the last one was) and tells whether the object itself
// still is the map the history defines -- a difference there alone is NOT
// reported (Set/Remove semantics are not this property), it is counted.
//
// Histories are explored by increasing length and a history whose check fails
// is not extended: a reported history is one all of whose proper prefixes pass,
// so its last step names the failing class.

import (
	"encoding/hex"
	"fmt"
	"runtime/debug"
	"sort"
	"strconv"
	"strings"
	"testing"

	"github.com/ontio/ontology/common"
	"github.com/ontio/ontology/common/log"
	"github.com/ontio/ontology/verifshim/vh"
)

// c14mut: one history (the replayable case).
type c14mut struct {
	Origin string   `json:"origin"` // "new" | "deserialized"
	Ops    []string `json:"ops"`
}

// key alphabet: three distinct map keys a < b < c; "b" in two VM types (GetMapKey does not distinguish them: the
// later Set replaces the stored key value, Remove with either removes the entry).
var c14mKeys = []string{"Ba", "Bb", "Ib", "Bc"}

// value alphabet: a primitive and a (fresh) one-element array.
var c14mVals = []string{"i1", "A3"}

func c14mKeyBytes(ksym string) string {
	switch ksym {
	case "Ba":
		return "a"
	case "Bb", "Ib":
		return "b"
	case "Bc":
		return "c"
	}
	panic("c14m: key " + ksym)
}

func c14mKey(ksym string) VmValue {
	if ksym == "Ib" {
		return VmValueFromInt64(0x62)
	}
	v, err := VmValueFromBytes([]byte(c14mKeyBytes(ksym)))
	if err != nil {
		panic(err)
	}
	return v
}

func c14mVal(vsym string) VmValue {
	switch vsym {
	case "i1":
		return VmValueFromInt64(1)
	case "A3":
		a := NewArrayValue()
		if err := a.Append(VmValueFromInt64(3)); err != nil {
			panic(err)
		}
		return VmValueFromArrayVal(a)
	}
	panic("c14m: value " + vsym)
}

// rendering of the two symbols in the notation of c14mDescribe
func c14mKeyText(ksym string) string {
	if ksym == "Ib" {
		return "I98"
	}
	return "B" + hex.EncodeToString([]byte(c14mKeyBytes(ksym)))
}

func c14mValText(vsym string) string {
	if vsym == "A3" {
		return "A[I3]"
	}
	return "I1"
}

// c14mOps: the alphabet of steps.
func c14mOps() (ops []string) {
	for _, k := range c14mKeys {
		for _, v := range c14mVals {
			ops = append(ops, "set:"+k+":"+v)
		}
	}
	for _, k := range c14mKeys {
		ops = append(ops, "remove:"+k)
	}
	return append(ops, "reset", "serialize", "keys", "reload")
}

// the origin "deserialized": Deserialize of the wire form of {a:1, c:1}
var c14mOriginBytes = []byte{mapType, 2, bytearrayType, 1, 'a', integerType, 1, 1, bytearrayType, 1, 'c', integerType, 1, 1}

// ---------------------------------------------------------------------------
// the reference model (boring Go)
// ---------------------------------------------------------------------------

type c14mEntry struct{ ksym, vsym string }

type c14mModel map[string]c14mEntry

func (m c14mModel) sorted() []string {
	ks := make([]string, 0, len(m))
	for k := range m {
		ks = append(ks, k)
	}
	sort.Strings(ks)
	return ks
}

// obs: what the VM can observe of the map the history defines, in the notation of c14mObserve.
func (m c14mModel) obs() string {
	var d, k, v []string
	for _, s := range m.sorted() {
		e := m[s]
		d = append(d, c14mKeyText(e.ksym)+"="+c14mValText(e.vsym))
		k = append(k, c14mKeyText(e.ksym))
		v = append(v, c14mValText(e.vsym))
	}
	return "data{" + strings.Join(d, ",") + "} keys[" + strings.Join(k, ",") + "] values[" + strings.Join(v, ",") + "]"
}

// step applies one mutating step to the model and names its class relative to the map before it.
func (m c14mModel) step(op string) (out c14mModel, class string) {
	p := strings.Split(op, ":")
	switch p[0] {
	case "set":
		kb := c14mKeyBytes(p[1])
		e, ok := m[kb]
		switch {
		case !ok:
			class = "set:new-key"
		case e.ksym == p[1]:
			class = "set:overwrite"
		default:
			class = "set:overwrite:key-of-other-type"
		}
		m[kb] = c14mEntry{p[1], p[2]}
	case "remove":
		kb := c14mKeyBytes(p[1])
		ks := m.sorted()
		e, ok := m[kb]
		switch {
		case ok && e.ksym == p[1]:
			class = "remove:present"
		case ok:
			class = "remove:present:key-of-other-type"
		case len(ks) == 0:
			class = "remove:absent:empty-map"
		case kb < ks[0]:
			class = "remove:absent:before-all-keys"
		case kb > ks[len(ks)-1]:
			class = "remove:absent:after-all-keys"
		default:
			class = "remove:absent:between-keys"
		}
		delete(m, kb)
	case "reset":
		class = "reset:empty-map"
		if len(m) > 0 {
			class = "reset:nonempty-map"
		}
		m = c14mModel{}
	case "serialize":
		class = "observe:Serialize"
	case "keys":
		class = "observe:KEYS+VALUES"
	case "reload":
		class = "reload:continue-on-deserialized-copy"
	default:
		panic("c14m: op " + op)
	}
	return m, class
}

// ---------------------------------------------------------------------------
// observation of a real value (own traversal, own ordering of Data)
// ---------------------------------------------------------------------------

func c14mDescribe(v *VmValue) string {
	switch v.valType {
	case integerType, bigintType:
		b, err := v.AsBigInt()
		if err != nil {
			return "I?" + err.Error()
		}
		return "I" + b.String()
	case boolType:
		return "b" + strconv.FormatBool(v.integer != 0)
	case bytearrayType:
		return "B" + hex.EncodeToString(v.byteArray)
	case arrayType, structType:
		var data []VmValue
		tag := "A"
		if v.valType == structType {
			tag = "S"
			if v.structval != nil {
				data = v.structval.Data
			}
		} else if v.array != nil {
			data = v.array.Data
		}
		var parts []string
		for i := range data {
			parts = append(parts, c14mDescribe(&data[i]))
		}
		return tag + "[" + strings.Join(parts, ",") + "]"
	case mapType:
		if v.mapval == nil {
			return "M?nil"
		}
		return "M{" + c14mData(v.mapval) + "}"
	}
	return fmt.Sprintf("?type%02x", v.valType)
}

func c14mData(m *MapValue) string {
	ks := make([]string, 0, len(m.Data))
	for k := range m.Data {
		ks = append(ks, k)
	}
	sort.Strings(ks)
	var parts []string
	for _, k := range ks {
		e := m.Data[k]
		s := c14mDescribe(&e[0]) + "=" + c14mDescribe(&e[1])
		if kb, err := e[0].AsBytes(); err != nil || string(kb) != k {
			s += "(stored under " + hex.EncodeToString([]byte(k)) + ")"
		}
		parts = append(parts, s)
	}
	return strings.Join(parts, ",")
}

// c14mObserve: entries, KEYS and VALUES of a real map.
func c14mObserve(m *MapValue) (out string) {
	p := vh.Catch(func() {
		var k, v []string
		keys := m.GetMapSortedKey()
		for i := range keys {
			k = append(k, c14mDescribe(&keys[i]))
		}
		vals, err := m.GetValues()
		if err != nil {
			v = append(v, "error:"+err.Error())
		}
		for i := range vals {
			v = append(v, c14mDescribe(&vals[i]))
		}
		out = "data{" + c14mData(m) + "} keys[" + strings.Join(k, ",") + "] values[" + strings.Join(v, ",") + "]"
	})
	if p != "" {
		return "panic:" + p
	}
	return out
}

// ---------------------------------------------------------------------------
// running a history on a real map
// ---------------------------------------------------------------------------

func c14mSerialize(v *VmValue) (data []byte, err error, p string) {
	p = vh.Catch(func() {
		sink := common.NewZeroCopySink(nil)
		if err = v.Serialize(sink); err == nil {
			data = sink.Bytes()
		}
	})
	return
}

func c14mDeserialize(data []byte) (back VmValue, unread int, err error, p string) {
	src := common.NewZeroCopySource(data)
	p = vh.Catch(func() { err = back.Deserialize(src) })
	return back, int(src.Len()), err, p
}

func c14mNew(origin string) (*MapValue, c14mModel, string) {
	switch origin {
	case "new":
		return NewMapValue(), c14mModel{}, ""
	case "deserialized":
		back, unread, err, p := c14mDeserialize(c14mOriginBytes)
		if err != nil || p != "" || unread != 0 || back.valType != mapType || back.mapval == nil {
			return nil, nil, fmt.Sprintf("Deserialize(%x): err=%v panic=%q unread=%d", c14mOriginBytes, err, p, unread)
		}
		return back.mapval, c14mModel{"a": {"Ba", "i1"}, "c": {"Bc", "i1"}}, ""
	}
	panic("c14m: origin " + origin)
}

// c14mApply runs one step on the real map (the model is advanced by the caller).  A step that fails or panics ends the history.
func c14mApply(m *MapValue, op string) (out *MapValue, fail string) {
	out = m
	p := vh.Catch(func() {
		f := strings.Split(op, ":")
		switch f[0] {
		case "set":
			if err := m.Set(c14mKey(f[1]), c14mVal(f[2])); err != nil {
				fail = "Set refused: " + err.Error()
			}
		case "remove":
			if err := m.Remove(c14mKey(f[1])); err != nil {
				fail = "Remove refused: " + err.Error()
			}
		case "reset":
			m.Reset()
		case "serialize":
			v := VmValueFromMapValue(m)
			sink := common.NewZeroCopySink(nil)
			_ = v.Serialize(sink) // judged by the check of the history that ends before this step
		case "keys":
			_ = m.GetMapSortedKey()
			_, _ = m.GetValues()
		case "reload":
			v := VmValueFromMapValue(m)
			data, err, p := c14mSerialize(&v)
			if err != nil || p != "" {
				fail = fmt.Sprintf("reload: Serialize: err=%v panic=%q", err, p)
				return
			}
			back, unread, err, p := c14mDeserialize(data)
			if err != nil || p != "" || unread != 0 || back.valType != mapType || back.mapval == nil {
				fail = fmt.Sprintf("reload: Deserialize(%x): err=%v panic=%q unread=%d", data, err, p, unread)
				return
			}
			out = back.mapval
		default:
			panic("c14m: op " + op)
		}
	})
	if p != "" {
		fail = "panic: " + p
	}
	return
}

// placements of the map in the serialized value
var c14mPlacements = []string{"bare", "in-array-before-another-element", "in-struct-before-another-element", "in-map-before-another-entry"}

// c14mPlace builds the value to serialize; pick extracts the map and the follower from a value of that shape.
func c14mPlace(m *MapValue, placement string) (VmValue, string) {
	mv := VmValueFromMapValue(m)
	switch placement {
	case "bare":
		return mv, ""
	case "in-array-before-another-element":
		a := NewArrayValue()
		_ = a.Append(mv)
		_ = a.Append(VmValueFromInt64(7))
		return VmValueFromArrayVal(a), "I7"
	case "in-struct-before-another-element":
		s := NewStructValue()
		_ = s.Append(mv)
		z, _ := VmValueFromBytes([]byte("z"))
		_ = s.Append(z)
		return VmValueFromStructVal(s), "B7a"
	case "in-map-before-another-entry":
		o := NewMapValue()
		k0, _ := VmValueFromBytes([]byte("k0"))
		k1, _ := VmValueFromBytes([]byte("k1"))
		_ = o.Set(k1, VmValueFromInt64(9))
		_ = o.Set(k0, mv)
		return VmValueFromMapValue(o), "B6b31=I9"
	}
	panic("c14m: placement " + placement)
}

// c14mPick: the map inside a deserialized value of the placement's shape, and the rendering of what follows it.
func c14mPick(v *VmValue, placement string) (*MapValue, string, bool) {
	var first *VmValue
	follow := ""
	switch placement {
	case "bare":
		first = v
	case "in-array-before-another-element":
		if v.valType != arrayType || v.array == nil || len(v.array.Data) != 2 {
			return nil, "", false
		}
		first, follow = &v.array.Data[0], c14mDescribe(&v.array.Data[1])
	case "in-struct-before-another-element":
		if v.valType != structType || v.structval == nil || len(v.structval.Data) != 2 {
			return nil, "", false
		}
		first, follow = &v.structval.Data[0], c14mDescribe(&v.structval.Data[1])
	case "in-map-before-another-entry":
		if v.valType != mapType || v.mapval == nil || len(v.mapval.Data) != 2 {
			return nil, "", false
		}
		e0, ok0 := v.mapval.Data["k0"]
		e1, ok1 := v.mapval.Data["k1"]
		if !ok0 || !ok1 {
			return nil, "", false
		}
		first, follow = &e0[1], c14mDescribe(&e1[0])+"="+c14mDescribe(&e1[1])
		if c14mDescribe(&e0[0]) != "B6b30" {
			return nil, "", false
		}
	}
	if first.valType != mapType || first.mapval == nil {
		return nil, "", false
	}
	return first.mapval, follow, true
}

// c14mCheck: the statement on the map as it is now.  Returns "" or (key suffix, detail) of the first failing placement.
func c14mCheck(m *MapValue) (obs string, key string, detail string) {
	obs = c14mObserve(m)
	if strings.HasPrefix(obs, "panic:") {
		return obs, "panic:KEYS+VALUES", "GetMapSortedKey/GetValues on the map panicked: " + obs
	}
	for _, pl := range c14mPlacements {
		w, follow := c14mPlace(m, pl)
		data, err, p := c14mSerialize(&w)
		if p != "" {
			return obs, "panic:Serialize:" + pl, fmt.Sprintf("Serialize of %s panicked: %.300s", c14mDescribe(&w), p)
		}
		if err != nil {
			return obs, "Serialize:valid-value-refused:" + c14errClass(err) + ":" + pl, fmt.Sprintf("Serialize of the acyclic value %s is refused: %v", c14mDescribe(&w), err)
		}
		back, unread, err, p := c14mDeserialize(data)
		if p != "" {
			return obs, "panic:Deserialize-of-own-serialization:" + pl, fmt.Sprintf("Deserialize(Serialize(%s)) = Deserialize(%x) panicked: %.300s", c14mDescribe(&w), data, p)
		}
		if err != nil {
			return obs, "roundtrip:own-serialization-rejected:" + c14errClass(err) + ":" + pl,
				fmt.Sprintf("Deserialize(Serialize(%s)) = Deserialize(%x) fails: %v; the map observed before: %s", c14mDescribe(&w), data, err, obs)
		}
		if unread != 0 {
			return obs, "roundtrip:own-serialization-has-trailing-bytes:" + pl,
				fmt.Sprintf("Deserialize(Serialize(%s)) = Deserialize(%x) leaves %d bytes unread", c14mDescribe(&w), data, unread)
		}
		bm, bfollow, ok := c14mPick(&back, pl)
		if !ok || bfollow != follow || !c14eq(&w, &back) {
			return obs, "roundtrip:value-differs:" + pl,
				fmt.Sprintf("Deserialize(Serialize(v)) != v: v = %s, wire %x, back = %s", c14mDescribe(&w), data, c14mDescribe(&back))
		}
		if bobs := c14mObserve(bm); bobs != obs {
			return obs, "roundtrip:map-observably-differs:" + pl,
				fmt.Sprintf("the map deserialized from its own serialization (%x, %s) is not the map that was serialized: before %s, after %s", data, pl, obs, bobs)
		}
	}
	return obs, "", ""
}

// ---------------------------------------------------------------------------
// the unit
// ---------------------------------------------------------------------------

type c14mRunner struct {
	r       *vh.Run
	ops     []string
	depth   int
	classes map[string]int64
	nviol   map[string]int
	failed  map[string]bool // histories whose check failed: not extended
	checks  int64
	hists   int64
	steps   int64
}

// run executes one history from scratch and judges the map after its last step.  ok=false: do not extend it.
func (c *c14mRunner) run(origin string, ops []string, report bool) (ok bool) {
	h := func() c14case { return c14case{Mut: &c14mut{Origin: origin, Ops: append([]string{}, ops...)}} }
	viol := func(key, detail string) {
		if !report {
			return
		}
		c.nviol[key]++
		if c.nviol[key] <= 3 {
			c.r.Violation(key, detail+fmt.Sprintf(" [history on one map object: origin %s; %s]", origin, strings.Join(ops, "; ")), h())
		} else {
			c.r.Violation(key, "", nil)
		}
	}
	m, model, fail := c14mNew(origin)
	if fail != "" {
		viol("mutation:origin:deserialize-of-valid-encoding-fails", fail)
		return false
	}
	last := "origin:" + origin
	for i, op := range ops {
		var cls string
		model, cls = model.step(op)
		m, fail = c14mApply(m, op)
		c.steps++
		if fail != "" {
			// the prefix before this step passed its check, so none of these calls may fail
			viol("mutation:step-fails:"+cls, fmt.Sprintf("step %d (%s) of the history: %s", i+1, op, fail))
			return false
		}
		last = cls
	}
	if report {
		c.hists++
		c.checks++
	}
	obs, key, detail := c14mCheck(m)
	if key != "" {
		viol("mutation:"+key+":after:"+last, detail)
		return false
	}
	if report {
		if obs == model.obs() {
			c.classes["mutation:roundtrip-ok:after:"+last]++
			c.classes["mutation:roundtrip-ok:entries="+strconv.Itoa(len(model))]++
		} else {
			// Set/Remove/Reset semantics are not this property: counted, not reported
			c.classes["mutation:roundtrip-ok:object-is-not-the-map-of-the-reference-model(not judged)"]++
		}
	}
	return true
}

// level runs the histories of exactly length L that extend ops and have no failing proper prefix (shorter
// histories were run by the earlier levels: the reported histories of a key come shortest first).
func (c *c14mRunner) level(origin string, ops []string, L int) {
	if len(ops) == L {
		if !c.run(origin, ops, true) {
			c.failed[origin+"|"+strings.Join(ops, ";")] = true
		}
		return
	}
	for _, op := range c.ops {
		next := append(ops, op)
		if len(next) < L && c.failed[origin+"|"+strings.Join(next, ";")] {
			continue
		}
		c.level(origin, next, L)
	}
}

var c14mOrigins = []string{"new", "deserialized"}

func TestVerif_C14_mutation(t *testing.T) {
	r := vh.Start(t, "C14", "mutation")
	defer r.Finish()
	log.InitLog(log.MaxLevelLog)
	c := &c14mRunner{r: r, ops: c14mOps(), depth: r.Pick(4, 5), classes: map[string]int64{}, nviol: map[string]int{}, failed: map[string]bool{}}
	r.Rule("mutation histories on ONE MapValue object: origin (NewMapValue() | Deserialize of the encoding of {a:1,c:1}) followed by every sequence of steps over " +
		"{Set(k,v): k in bytes a, bytes b, integer 0x62 (the same map key as bytes b), bytes c; v in 1, [3]} u {Remove(k)} u {Reset, Serialize (result discarded), KEYS+VALUES (discarded), " +
		"reload = continue on Deserialize(Serialize(map))}; each history replayed from scratch on a fresh object. After every history: Serialize of the map bare / as first element of a new array, struct " +
		"(followed by a primitive) / under the smaller key of a new two-entry map must succeed, Deserialize must accept the bytes, consume all of them and give a value structurally equal to the serialized one " +
		"whose map has the same entries, KEYS and VALUES as the object had before. A Go map driven by the same history classifies the last step (new key / overwrite / overwrite with a key of the other type; " +
		"remove present / absent before, between, after the existing keys / from the empty map; reset; observation; reload); a history whose check fails is not extended. distinct = (class of the last step, outcome)")
	r.Bound(fmt.Sprintf("2 origins x all histories of length <= %d over %d steps (4 keys x 2 values Set, 4 Remove, Reset, 2 observations, reload); 4 placements", c.depth, len(c.ops)))
	r.Assume("whether the object still is the map its history defines (Set/Remove/Reset semantics) is not judged here, only counted: the oracle compares the deserialized value with the object that was serialized")
	defer debug.SetGCPercent(debug.SetGCPercent(800)) // the histories produce short-lived garbage only
	defer func() {
		for k, n := range c.classes {
			r.ClassN(k, n)
		}
		r.Eval(c.checks)
		r.Trace(c.hists)
		r.Trans(c.steps)
	}()

	var rc c14case
	if r.IsReplay() {
		if !r.ReplayCase(&rc) || rc.Mut == nil {
			return // a case of another part
		}
		okOrigin := false
		for _, o := range c14mOrigins {
			okOrigin = okOrigin || o == rc.Mut.Origin
		}
		known := map[string]bool{}
		for _, op := range c.ops {
			known[op] = true
		}
		for _, op := range rc.Mut.Ops {
			okOrigin = okOrigin && known[op]
		}
		r.Need(okOrigin, "replay: history %+v is not over the alphabet", *rc.Mut)
		c.run(rc.Mut.Origin, rc.Mut.Ops, true)
		return
	}

	// work items: (origin, first step, second step); the shorter histories are judged by the owner of the item with step index 0
	type workItem struct {
		origin   string
		op1, op2 string
	}
	var items []workItem
	item := 0
	for _, origin := range c14mOrigins {
		ok0 := c.run(origin, nil, r.Mine(item))
		for _, op1 := range c.ops {
			ok1 := ok0 && c.depth >= 1 && c.run(origin, []string{op1}, r.Mine(item))
			for _, op2 := range c.ops {
				if r.Mine(item) && ok1 {
					items = append(items, workItem{origin, op1, op2})
				}
				item++
			}
		}
	}
	for L := 2; L <= c.depth; L++ {
		for _, it := range items {
			if r.Expired() {
				return
			}
			h := make([]string, 2, c.depth)
			h[0], h[1] = it.op1, it.op2
			if !c.failed[it.origin+"|"+it.op1+";"+it.op2] {
				c.level(it.origin, h, L)
			}
		}
	}
	r.Set("mutation_histories", c.hists)

	// non-vacuity (classes every shard meets from length 3 on; the full list is required across shards by checks.d need_classes)
	if !r.R.CapHit && len(c.nviol) == 0 && c.depth >= 4 {
		for _, k := range []string{"remove:absent:before-all-keys", "remove:absent:between-keys", "remove:absent:after-all-keys", "remove:present",
			"remove:present:key-of-other-type", "set:overwrite:key-of-other-type", "reset:nonempty-map", "observe:Serialize", "observe:KEYS+VALUES",
			"reload:continue-on-deserialized-copy"} {
			r.Need(c.classes["mutation:roundtrip-ok:after:"+k] > 0, "outcome class %q never observed", "mutation:roundtrip-ok:after:"+k)
		}
	}
}

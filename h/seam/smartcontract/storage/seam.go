package storage

import "github.com/ontio/ontology/core/store/overlaydb"

// VerifBackend exposes the overlay a CacheDB writes to (harness seam, injected
// through the build overlay only; not part of /repo).
func (self *CacheDB) VerifBackend() *overlaydb.OverlayDB { return self.backend }

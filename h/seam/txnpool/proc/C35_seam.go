package proc

import (
	"fmt"
	"time"

	"github.com/ontio/ontology/common"
	txtypes "github.com/ontio/ontology/core/types"
	tc "github.com/ontio/ontology/txnpool/common"
	"github.com/ontio/ontology/validator/stateful"
	"github.com/ontio/ontology/validator/stateless"
	vtypes "github.com/ontio/ontology/validator/types"
)

// Harness seam for property C35 (injected through the build overlay only; not
// part of /repo).  It lets a harness OUTSIDE this package (consensus/vbft, where
// the real Server.validHeight lives) drive the real pool server step by step:
// the same construction as NewTxPoolServer, but the validator worker pools are
// shared between instances and the response loop (TXPoolServer.start) is run by
// the harness, one response at a time, so that every step is deterministic.

// VerifC35NewServer builds a TXPoolServer the way NewTxPoolServer does, without
// starting the response goroutine and without pre-execution/broadcast.
func VerifC35NewServer(sl *stateless.ValidatorPool, sf *stateful.ValidatorPool) (*TXPoolServer, *TxPoolService) {
	s := &TXPoolServer{}
	s.txPool = tc.NewTxPool()
	s.allPendingTxs = make(map[common.Uint256]*serverPendingTx)
	s.slots = make(chan struct{}, 64)
	for i := 0; i < 64; i++ {
		s.slots <- struct{}{}
	}
	s.gasPrice = getGasPriceConfig()
	s.disablePreExec = true
	s.disableBroadcastNetTx = true
	s.stateless = sl
	s.stateful = sf
	s.rspCh = make(chan *vtypes.CheckResponse, 256)
	return s, NewTxPoolService(s)
}

// VerifC35Pending is the number of transactions in the verifying list.
func (s *TXPoolServer) VerifC35Pending() int { return s.getPendingListSize() }

// VerifC35Pool is the verified-transaction pool of the server.
func (s *TXPoolServer) VerifC35Pool() *tc.TXPool { return s.txPool }

// VerifC35Deliver hands n validator responses to handleRsp (what
// TXPoolServer.start does) and insists that nothing is left in flight.
func (s *TXPoolServer) VerifC35Deliver(n int) {
	for i := 0; i < n; i++ {
		select {
		case rsp := <-s.rspCh:
			s.handleRsp(rsp)
		case <-time.After(60 * time.Second):
			panic("VERIF-INFRA: validator response did not arrive")
		}
	}
	if p := s.getPendingListSize(); p != 0 {
		panic(fmt.Sprintf("VERIF-INFRA: %d transactions still pending after all responses were delivered", p))
	}
	if len(s.rspCh) != 0 {
		panic("VERIF-INFRA: unexpected extra validator response")
	}
}

// VerifC35Submit is TxPoolService.handleTransaction for an http submission,
// followed by the delivery of the two validator verdicts when verification
// was started.  inPool tells whether the hash was in the pool before.
func (ta *TxPoolService) VerifC35Submit(tx *txtypes.Transaction) (res *tc.TxResult, inPool bool) {
	s := ta.server
	inPool = s.getTransaction(tx.Hash()) != nil
	ch := make(chan *tc.TxResult, 1)
	pend0 := s.getPendingListSize()
	ta.handleTransaction(tc.HttpSender, tx, ch)
	if s.getPendingListSize() > pend0 {
		s.VerifC35Deliver(2) // one stateless and one stateful verdict
	}
	select {
	case res = <-ch:
	default:
		panic("VERIF-INFRA: no result for a submitted transaction")
	}
	return res, inPool
}

// VerifC35GetTxPool is what the pool actor does on GetTxnPoolReq; nre is the
// number of expired entries handed to the stateful validator (verdicts not yet
// delivered: call VerifC35Deliver(nre) after the proposal is built).
func (s *TXPoolServer) VerifC35GetTxPool(byCount bool, height uint32) (avl []*tc.VerifiedTx, nre int) {
	pend0 := s.getPendingListSize()
	avl = s.getTxPool(byCount, height)
	return avl, s.getPendingListSize() - pend0
}

// VerifC35BlockPersisted is what the pool actor does on SaveBlockCompleteMsg.
// With reverify (the default configuration has pre-execution enabled, assumed
// to pass here) a non-empty block makes the pool re-verify every remaining
// transaction; sorted gives the harness's deterministic order for that.
func (s *TXPoolServer) VerifC35BlockPersisted(blk *txtypes.Block, reverify bool, sorted func([]*txtypes.Transaction)) {
	s.cleanTransactionList(blk.Transactions, blk.Header.Height)
	if reverify && len(blk.Transactions) != 0 {
		remain := s.txPool.Remain()
		sorted(remain)
		n := 0
		for _, t := range remain {
			p0 := s.getPendingListSize()
			s.reVerifyStateful(t, tc.NilSender)
			n += s.getPendingListSize() - p0
		}
		s.VerifC35Deliver(n)
	}
}

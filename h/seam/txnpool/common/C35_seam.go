package common

import (
	"fmt"
	"sort"
	"strings"

	"github.com/ontio/ontology/common"
)

// VerifC35Dump renders the complete pool state canonically (harness seam for
// property C35, injected through the build overlay only; not part of /repo).
// name maps a transaction hash to a short stable label.
func (tp *TXPool) VerifC35Dump(name func(common.Uint256) string) string {
	tp.RLock()
	defer tp.RUnlock()
	var v []string
	for h, e := range tp.validTxMap {
		v = append(v, fmt.Sprintf("%s@%d/%d", name(h), e.VerifiedHeight, e.Nonce))
	}
	sort.Strings(v)
	var l []string
	for addr, m := range tp.eipTxPool {
		var it []string
		for n, tx := range m.items {
			it = append(it, fmt.Sprintf("%d:%s", n, name(tx.Hash())))
		}
		sort.Strings(it)
		hp := append([]uint64{}, (*m.index)...)
		min := "-"
		if len(hp) > 0 {
			min = fmt.Sprint(hp[0])
		}
		sort.Slice(hp, func(i, j int) bool { return hp[i] < hp[j] })
		l = append(l, fmt.Sprintf("%x{%s|heap%v min%s}", addr[:2], strings.Join(it, ","), hp, min))
	}
	sort.Strings(l)
	return "valid[" + strings.Join(v, " ") + "] eip[" + strings.Join(l, " ") + "]"
}

// VerifC35Eip lists (payer, nonce) -> tx hash of the per-sender nonce maps.
func (tp *TXPool) VerifC35Eip() map[common.Address]map[uint64]common.Uint256 {
	tp.RLock()
	defer tp.RUnlock()
	out := map[common.Address]map[uint64]common.Uint256{}
	for addr, m := range tp.eipTxPool {
		o := map[uint64]common.Uint256{}
		for n, tx := range m.items {
			o[n] = tx.Hash()
		}
		out[addr] = o
	}
	return out
}

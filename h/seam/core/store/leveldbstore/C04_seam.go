package leveldbstore

import "github.com/syndtr/goleveldb/leveldb/util"

// VerifCompact flushes the memtable and compacts the whole key range, so that
// shadowed versions and tombstones of earlier writes are dropped (harness
// seam, injected through the build overlay only; not part of /repo).  Used by
// the C04 harness, which recycles memory-backed stores between replays.
func (self *LevelDBStore) VerifCompact() error {
	return self.db.CompactRange(util.Range{})
}

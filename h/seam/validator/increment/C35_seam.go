package increment

import (
	"fmt"
	"sort"
	"strings"

	"github.com/ontio/ontology/common"
)

// VerifC35Dump renders the validator window canonically (harness seam for
// property C35, injected through the build overlay only; not part of /repo).
func (self *IncrementValidator) VerifC35Dump(name func(common.Uint256) string) string {
	self.mutex.Lock()
	defer self.mutex.Unlock()
	var bl []string
	for i, b := range self.blocks {
		var hs []string
		for h := range b {
			hs = append(hs, name(h))
		}
		sort.Strings(hs)
		var ns []string
		if i < len(self.nonces) {
			for a, n := range self.nonces[i] {
				ns = append(ns, fmt.Sprintf("%x=%d", a[:2], n))
			}
		}
		sort.Strings(ns)
		bl = append(bl, strings.Join(hs, ",")+"/"+strings.Join(ns, ","))
	}
	// run-length encode runs of identical (typically empty) blocks
	var out []string
	for i := 0; i < len(bl); {
		j := i
		for j < len(bl) && bl[j] == bl[i] {
			j++
		}
		if j-i > 1 {
			out = append(out, fmt.Sprintf("%dx(%s)", j-i, bl[i]))
		} else {
			out = append(out, "("+bl[i]+")")
		}
		i = j
	}
	return fmt.Sprintf("base%d n%d/%d %s", self.baseHeight, len(self.blocks), len(self.nonces), strings.Join(out, ""))
}

/* Stub for the (emptied) wasmjit archive: every entry point reports an
 * internal error.  WASM contracts are outside every listed property; the stub
 * only exists so that packages importing smartcontract/service/wasmvm link. */
#include <stdint.h>
#include <stdlib.h>
#include <string.h>
typedef struct { uint8_t *data; uint32_t len; } wasmjit_bytes_t;
typedef struct { uint8_t *data; uint32_t len; } wasmjit_slice_t;
typedef uint32_t wasmjit_result_kind;
typedef struct { wasmjit_result_kind kind; wasmjit_bytes_t msg; } wasmjit_result_t;
typedef struct { uint64_t exec_step; uint64_t gas_left; wasmjit_bytes_t buffer; wasmjit_result_t res; } wasmjit_ret;
typedef uint8_t h256_t[32];

static wasmjit_bytes_t mkmsg(const char *s) {
  wasmjit_bytes_t b; b.len = (uint32_t)strlen(s); b.data = malloc(b.len ? b.len : 1); memcpy(b.data, s, b.len); return b;
}
void wasmjit_bytes_destroy(wasmjit_bytes_t bytes) { if (bytes.data) free(bytes.data); }
void *wasmjit_chain_context_create(uint32_t height, h256_t *blockhash, uint64_t timestamp, h256_t *txhash,
    wasmjit_slice_t callers_raw, wasmjit_slice_t witness_raw, wasmjit_slice_t input_raw, uint64_t exec_step,
    uint64_t gas_factor, uint64_t gas_left, uint64_t depth_left, uint64_t service_index) { return calloc(1, 16); }
wasmjit_result_t wasmjit_validate(wasmjit_slice_t wasm) { wasmjit_result_t r; r.kind = 1; r.msg = mkmsg("verif stub: wasm jit not available"); return r; }
wasmjit_result_t wasmjit_construct_result(uint8_t *data, uint32_t len, wasmjit_result_kind kind) {
  wasmjit_result_t r; r.kind = kind; r.msg.len = len; r.msg.data = malloc(len ? len : 1); if (len) memcpy(r.msg.data, data, len); return r; }
uint64_t wasmjit_service_index(void *ctx) { return 0; }
wasmjit_ret wasmjit_invoke(wasmjit_slice_t code, void *ctx) {
  wasmjit_ret r; memset(&r, 0, sizeof r); r.res.kind = 1; r.res.msg = mkmsg("verif stub: wasm jit not available"); return r; }
void wasmjit_set_calloutput(void *ctx, uint8_t *data, uint32_t len) {}
uint64_t wasmjit_get_gas(void *ctx) { return 0; }
uint64_t wasmjit_get_exec_step(void *ctx) { return 0; }
void wasmjit_set_gas(void *ctx, uint64_t gas) {}
void wasmjit_set_exec_step(void *ctx, uint64_t s) {}

#!/bin/sh
# Build the framework from files on disk only (offline) and warm the Go build cache.
set -e
cd "$(dirname "$0")"
export GOFLAGS=-mod=mod GOPROXY=off GOSUMDB=off GOTOOLCHAIN=local
mkdir -p build evidence replays
gcc -c -O1 -o build/wasmstub.o csrc/wasmstub.c
ar rcs build/libverifwasmstub.a build/wasmstub.o
./vcheck build-all

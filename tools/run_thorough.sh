#!/bin/sh
# run the thorough tier of the given checks one after the other; keep a copy of each evidence file
cd /verif
mkdir -p evidence_thorough
for c in "$@"; do
  /usr/bin/time -f "%e s" nice -n 5 ./vcheck $c --tier thorough > /tmp/thorough_$c.log 2>&1
  rc=$?
  echo "$c rc=$rc $(grep '^vcheck' /tmp/thorough_$c.log | tail -1 | cut -c1-220) $(tail -1 /tmp/thorough_$c.log)" >> /tmp/thorough.log
  cp evidence/$c.json evidence_thorough/$c.json 2>/dev/null
done
echo DONE >> /tmp/thorough.log

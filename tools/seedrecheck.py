#!/usr/bin/env python3
"""seedrecheck.py <seed dir name, e.g. C05-T5> <scratch worktree> "<what was strengthened>"
Re-runs ./vcheck <id> quick against the filed seed (patch applied in the scratch worktree, VERIF_REPO) after a check
was strengthened, and records the new result in the seed's meta.json (the first-contact result is kept)."""
import sys, os, json, subprocess, time
name, wt, note = sys.argv[1], sys.argv[2], sys.argv[3]
pid = name.split("-")[0]
d = "/verif/seeded/" + name
env = dict(os.environ, GOFLAGS="-mod=mod", GOPROXY="off", GOSUMDB="off", GOTOOLCHAIN="local", CGO_LDFLAGS="-L/verif/build -lverifwasmstub")
def sh(cmd, cwd=None, e=env):
    r = subprocess.run(cmd, shell=True, cwd=cwd, env=e, capture_output=True, text=True)
    return r.returncode, r.stdout + r.stderr
head = subprocess.run("git -C /repo rev-parse HEAD", shell=True, capture_output=True, text=True).stdout.strip()
rc, out = sh("git checkout -q --detach %s && git checkout -- . && git clean -fdq && git apply --whitespace=nowarn %s/patch.diff" % (head, d), wt)
if rc != 0:
    print("patch does not apply", out); sys.exit(2)
m = json.load(open(d + "/meta.json"))
r = m["lead_confirmation"]
evp = "/verif/evidence/%s.json" % pid
try:
    t0 = time.time()
    rc, out = sh("./vcheck %s --tier quick" % pid, "/verif", dict(env, VERIF_REPO=wt, VERIF_NO_CONFIRM="1"))
finally:
    sh("git checkout -- . && git clean -fdq", wt)
viol = [l[:400] for l in out.splitlines() if l.startswith("VIOLATION")][:6]
caught = rc == 1 and any(("property=%s" % pid) in l for l in viol)
if "first_contact" not in r:
    r["first_contact"] = {k: r.get(k) for k in ("check_rc", "check_violation_lines", "check_summary", "caught")}
r.update({"check_rc": rc, "check_wall_s": round(time.time() - t0, 1), "check_violation_lines": viol,
          "check_summary": [l[:300] for l in out.splitlines() if l.startswith("vcheck") or l.startswith("VERIF-INFRA")][-2:],
          "caught": caught, "strengthened": note, "rechecked_at_repo_head": head})
json.dump(m, open(d + "/meta.json", "w"), indent=1)
print(name, "caught" if caught else "MISSED", r["check_summary"])

#!/usr/bin/env python3
import json,glob,sys,os
tag=sys.argv[1] if len(sys.argv)>1 else ''
for d in sorted(glob.glob('/verif/seeded/*-%s*'%tag)):
    m=json.load(open(d+'/meta.json')); r=m.get('lead_confirmation',{})
    print(os.path.basename(d),'confirmed=',r.get('confirmed'),'caught=',r.get('caught'),'rc=',r.get('check_rc'),(r.get('check_summary') or [''])[-1][:110])

#!/usr/bin/env python3
"""seedcheck.py <seed out dir e.g. /tmp/seed/out/S5/C05> <scratch worktree e.g. /tmp/seed/S5> [--no-check]
Confirms a seeded defect (patch applies, builds, existing tests of touched packages pass, demo fails with / passes
without), then applies it to /repo, runs ./vcheck <id> quick, reverts /repo, and files it under /verif/seeded/<id>-<tag>/."""
import sys, os, re, json, subprocess, shutil, time
src, wt = sys.argv[1].rstrip('/'), sys.argv[2]
pid = os.path.basename(src)
tag = os.path.basename(os.path.dirname(src))
env = dict(os.environ, GOFLAGS="-mod=mod", GOPROXY="off", GOSUMDB="off", GOTOOLCHAIN="local", CGO_LDFLAGS="-L/verif/build -lverifwasmstub")
def sh(cmd, cwd=None, timeout=3000):
    r = subprocess.run(cmd, shell=True, cwd=cwd, env=env, capture_output=True, text=True, timeout=timeout)
    return r.returncode, (r.stdout + r.stderr)
patch = os.path.join(src, "patch.diff")
demo = os.path.join(src, "demo_test.go")
meta = json.load(open(os.path.join(src, "meta.json"))) if os.path.exists(os.path.join(src, "meta.json")) else {}
res = {"property": pid, "seed": tag}
head = subprocess.run("git -C /repo rev-parse HEAD", shell=True, capture_output=True, text=True).stdout.strip()
sh("git checkout -q --detach %s && git checkout -- . && git clean -fdq" % head, wt)
# demo placement
place = None
for l in open(demo).read().splitlines()[:15]:
    m = re.search(r"place in:\s*(\S+)", l)
    if m: place = m.group(1).strip('/').rstrip('.')
if not place:
    print("NO PLACE LINE in demo"); sys.exit(2)
demodst = os.path.join(wt, place, "zz_seed_demo_test.go")
shutil.copy(demo, demodst)
runm = re.search(r"-run\s+['\"]?([\w^$|]+)", open(demo).read())
runarg = "-run '%s'" % runm.group(1) if runm else ""
rc0, out0 = sh("go test -vet=off -count=1 %s ./%s/" % (runarg, place), wt)
res["demo_passes_without_patch"] = rc0 == 0
rc, out = sh("git apply --whitespace=nowarn %s" % patch, wt)
if rc != 0:
    print("PATCH DOES NOT APPLY", out); sys.exit(2)
files = [l[6:].strip() for l in open(patch) if l.startswith("+++ b/")]
pkgs = sorted(set(os.path.dirname(f) for f in files if f.endswith(".go")))
rc1, out1 = sh("go test -vet=off -count=1 %s ./%s/" % (runarg, place), wt)
res["demo_fails_with_patch"] = rc1 != 0
os.remove(demodst)
existing = {}
for p in pkgs:
    rc2, out2 = sh("go test -vet=off -count=1 ./%s/" % p, wt)
    # known environment-dependent failure (DNS) is ignored
    fails = [l for l in out2.splitlines() if l.startswith("--- FAIL")]
    fails = [f for f in fails if "TestCheckReserveWithDomain" not in f and "TestPreExecuteContractWasmDeploy" not in f]
    existing[p] = (rc2 == 0) or (not fails and "build failed" not in out2 and "cannot" not in out2.split("FAIL")[0][-200:])
    if not existing[p]: res.setdefault("existing_out", {})[p] = out2[-1500:]
res["existing_tests_pass_with_patch"] = existing
sh("git checkout -- . && git clean -fdq", wt)
ok = res["demo_passes_without_patch"] and res["demo_fails_with_patch"] and all(existing.values())
res["confirmed"] = ok
if not ok:
    res["demo_out_without"] = out0[-800:]; res["demo_out_with"] = out1[-800:]
# run my check against the scratch worktree with the patch applied (VERIF_REPO), /repo itself is not touched
if ok and "--no-check" not in sys.argv:
    rc, out = sh("git apply --whitespace=nowarn %s" % patch, wt)
    try:
        t0 = time.time()
        evp = "/verif/evidence/%s.json" % pid
        env["VERIF_REPO"] = wt
        env["VERIF_NO_CONFIRM"] = "1"
        rc, out = sh("./vcheck %s --tier quick" % pid, "/verif", timeout=3600)
        res["check_rc"] = rc
        res["check_wall_s"] = round(time.time() - t0, 1)
        res["check_violation_lines"] = [l[:400] for l in out.splitlines() if l.startswith("VIOLATION")][:6]
        res["check_summary"] = [l[:300] for l in out.splitlines() if l.startswith("vcheck") or l.startswith("VERIF-INFRA")][-2:]
        res["caught"] = rc == 1 and any(("property=%s" % pid) in l for l in res["check_violation_lines"])
    finally:
        sh("git checkout -- . && git clean -fdq", wt)
dst = "/verif/seeded/%s-%s" % (pid, tag)
os.makedirs(dst, exist_ok=True)
shutil.copy(patch, dst); shutil.copy(demo, dst)
meta.update({"property": pid, "lead_confirmation": res, "ran": "tools/seedcheck.py: git apply in scratch worktree; go test of touched packages; demo with/without; ./vcheck quick on /repo with the patch applied, then reverted"})
json.dump(meta, open(os.path.join(dst, "meta.json"), "w"), indent=1)
print(json.dumps(res, indent=1))

#!/usr/bin/env python3
"""regenerate MANIFEST.json from checks.json + not_applicable.json"""
import json, os
V = os.path.dirname(os.path.dirname(os.path.abspath(__file__)))
import glob
checks = {os.path.basename(p)[:-5]: json.load(open(p)) for p in sorted(glob.glob(os.path.join(V, "checks.d", "*.json")))}
na = json.load(open(os.path.join(V, "not_applicable.json"))) if os.path.exists(os.path.join(V, "not_applicable.json")) else []
props = [json.loads(l)["id"] for l in open(os.path.join(V, "properties.jsonl"))]
engines = {
 "bx": "bounded-exhaustive enumerator over product alphabets / operation sequences / mutation sets (h/shim/vh + per-property harness)",
 "xs": "explicit-state breadth-first search over real objects with canonical-state deduplication and a Go reference model (h/shim/xs)",
 "cs": "controlled scheduler: stateless DFS over goroutine interleavings at hooked sync points, iterative preemption bounding (h/shim/vsync)",
 "cp": "crash-point enumerator: child process killed at every durable-write boundary, reopened and compared with an uncrashed run (h/shim/vcrash)",
 "nd": "environment-answer explorer: every map iteration order at every rewritten range statement (h/shim/vnd)",
}
m = {"version": 1,
     "setup_cmd": "cd /verif && ./setup.sh",
     "hooks": {"guard": "verif", "enable": "go test -c -tags verif -overlay <generated>: harness files, virtual shim packages and instrumented copies are injected through a build overlay generated from /repo's working tree at check time; no hook is committed to /repo",
               "baseline_off_cmd": "cd /repo && GOFLAGS=-mod=mod go test -vet=off -count=1 -timeout 25m ./...",
               "source_commits": [], "add_only": True},
     "engines": [], "checks": [], "not_applicable": [],
     "notes": "Every check: /verif/vcheck <id> --tier <tier>. Exit 0 held, 1 violation (VIOLATION line), 2 infrastructure error. Known findings: /verif/known_findings.json."}
for e, txt in engines.items():
    serves = sorted(p for p, c in checks.items() if e in c.get("engine", "").split("+"))
    if serves:
        m["engines"].append({"name": e, "path": "/verif/h/shim", "serves_properties": serves, "kind_free_text": txt})
for p in props:
    if p in checks:
        c = checks[p]
        m["checks"].append({
            "property_id": p,
            "quick_cmd": "cd /verif && ./vcheck %s --tier quick" % p,
            "thorough_cmd": "cd /verif && ./vcheck %s --tier thorough" % p,
            "evidence_file": "/verif/evidence/%s.json" % p,
            "replay_cmd_template": "cd /verif && ./vcheck %s --replay {path}" % p,
            "engine": c.get("engine", "bx"),
            "level_claimed": {"category": c["level"], "text": c["level_text"], "design_ref": c.get("design_ref", "DESIGN.md §4 " + p)},
            "level_note": c["level_note"],
            "technique": c["technique"]})
nad = {x["property_id"]: x for x in na}
for p in props:
    if p not in checks:
        m["not_applicable"].append(nad.get(p, {"property_id": p, "reason": "check not built yet in this session (design in DESIGN.md §4); not claimed"}))
json.dump(m, open(os.path.join(V, "MANIFEST.json"), "w"), indent=1)
print("checks:", len(m["checks"]), "not_applicable:", len(m["not_applicable"]))
